#!/venv/bin/python
"""usage: tools/seed_regress.py [--all-checks] [--tier quick] [--seed 0] [--jobs 3] [SEED_ID ...]

Sensitivity self-test of the monitors: for every kept seeded defect under
/verif/seeded/<id>/ (default: all) make a scratch worktree of /repo OUTSIDE
/repo and /verif, apply patch.diff, run the checks named in meta.json
"caught_by" (or all 19 with --all-checks) against it with VMON_REPO, and
report CAUGHT (exit 1 with a VIOLATION line) or MISSED per (seed, check).
Nothing is written to /repo, evidence/ or replays/ (VMON_OUT is a scratch
directory); each worktree and its builds are removed as soon as the seed is
done.  Writes seeded/REGRESS.json (seed -> check -> verdict).
Exit 0 iff every expected (seed, check) pair is CAUGHT.
"""
import argparse
import json
import os
import shutil
import subprocess
import sys
import tempfile
from concurrent.futures import ThreadPoolExecutor

VERIF = os.path.dirname(os.path.dirname(os.path.abspath(__file__)))
ALL = ['C%02d' % i for i in range(1, 20)]


def run_seed(sid, a):
    d = os.path.join(VERIF, 'seeded', sid)
    meta = json.load(open(os.path.join(d, 'meta.json')))
    if meta.get('not_caught') and not a.all_checks:
        return sid, {}
    checks = ALL if a.all_checks else (meta.get('caught_by') or
                                       [meta['property']])
    wt = tempfile.mkdtemp(prefix='seedreg-%s-' % sid)
    os.rmdir(wt)
    out = tempfile.mkdtemp(prefix='seedreg-out-')
    res = {}
    try:
        subprocess.run(['git', '-C', '/repo', 'worktree', 'add', '-q', wt,
                        'HEAD'], check=True, capture_output=True)
        p = subprocess.run(['git', 'apply', os.path.join(d, 'patch.diff')],
                           cwd=wt, capture_output=True, text=True)
        if p.returncode:
            return sid, {c: 'PATCH-DOES-NOT-APPLY' for c in checks}
        env = dict(os.environ, VMON_REPO=wt, VMON_OUT=out,
                   VERIF_SEED=str(a.seed), PYTHONHASHSEED='0')
        for c in checks:
            p = subprocess.run(['/venv/bin/python', '-m', 'vmon', 'check', c,
                                '--tier', a.tier, '--jobs', str(a.cjobs)],
                               cwd=VERIF, env=env, capture_output=True,
                               text=True)
            viol = any(l.startswith('VIOLATION') for l in
                       p.stdout.splitlines())
            res[c] = ('CAUGHT' if p.returncode == 1 and viol else
                      'MISSED' if p.returncode == 0 else
                      'INCONCLUSIVE' if p.returncode == 2 else
                      'rc=%s' % p.returncode)
    finally:
        subprocess.run(['git', '-C', '/repo', 'worktree', 'remove', '--force',
                        wt], capture_output=True)
        shutil.rmtree(wt, ignore_errors=True)
        shutil.rmtree(out, ignore_errors=True)
    return sid, res


def main():
    ap = argparse.ArgumentParser()
    ap.add_argument('--all-checks', action='store_true')
    ap.add_argument('--tier', default='quick')
    ap.add_argument('--seed', type=int, default=0)
    ap.add_argument('--jobs', type=int, default=3)
    ap.add_argument('--cjobs', type=int, default=8)
    ap.add_argument('seeds', nargs='*')
    a = ap.parse_args()
    seeds = a.seeds or sorted(
        s for s in os.listdir(os.path.join(VERIF, 'seeded'))
        if os.path.isdir(os.path.join(VERIF, 'seeded', s)))
    table = {}
    bad = 0
    with ThreadPoolExecutor(a.jobs) as ex:
        for sid, res in ex.map(lambda s: run_seed(s, a), seeds):
            table[sid] = res
            meta = json.load(open(os.path.join(VERIF, 'seeded', sid,
                                               'meta.json')))
            exp = [] if meta.get('not_caught') else (
                meta.get('caught_by') or [meta['property']])
            if meta.get('not_caught'):
                res = dict(res, note='not claimed')
            line = ' '.join('%s=%s' % kv for kv in sorted(res.items())
                            if kv[1] != 'MISSED' or kv[0] in exp)
            print('%s: %s' % (sid, line), flush=True)
            for c in exp:
                if res.get(c) != 'CAUGHT':
                    bad += 1
    path = os.path.join(VERIF, 'seeded', 'REGRESS.json')
    old = {}
    if os.path.exists(path) and a.seeds:
        old = json.load(open(path)).get('table', {})
    old.update(table)
    json.dump(dict(tier=a.tier, seed=a.seed, all_checks=a.all_checks,
                   table=old), open(path, 'w'), indent=1, sort_keys=True)
    print('expected pairs not caught: %d' % bad)
    sys.exit(1 if bad else 0)


if __name__ == '__main__':
    main()
