#!/venv/bin/python
"""usage: tools/cov_report.py [--tier quick] [--seed 0] [PID ...]

Reporting tool, never a verdict: runs the registered checks against a
gcov-instrumented build of the C extensions (variant ``cov``) and with
coverage.py watching the pure-Python implementation, then prints, per source
file of /repo/src/BTrees, which lines (aggregated over the 22 families: a
template line counts as reached when any family reached it) and which
functions the monitors' workloads drove - and, more usefully, which they did
NOT.  Writes covreport/summary.json and covreport/unreached.txt under /verif.

Evidence and replays of these runs go to a scratch directory (VMON_OUT).
"""
import argparse
import collections
import glob
import json
import os
import shutil
import subprocess
import sys
import tempfile

VERIF = os.path.dirname(os.path.dirname(os.path.abspath(__file__)))
sys.path.insert(0, VERIF)
from vmon import build  # noqa

ALL = ['C%02d' % i for i in range(1, 20)]


def main():
    ap = argparse.ArgumentParser()
    ap.add_argument('--tier', default='quick')
    ap.add_argument('--seed', default='0')
    ap.add_argument('--out', default=os.path.join(VERIF, 'covreport'))
    ap.add_argument('pids', nargs='*')
    a = ap.parse_args()
    pids = [p.upper() for p in a.pids] or ALL
    bdir = build.get_build('cov', quiet=False)
    pkg = os.path.join(bdir, 'BTrees')
    for f in glob.glob(os.path.join(pkg, '*.gcda')):
        os.unlink(f)
    scratch = tempfile.mkdtemp(prefix='vmon-cov-')
    pyc = os.path.join(scratch, 'pycov')
    os.makedirs(pyc)
    env = dict(os.environ, VMON_FORCE_VARIANT='cov', VMON_PYCOV=pyc,
               VMON_OUT=os.path.join(scratch, 'out'), VERIF_SEED=a.seed)
    verdicts = {}
    for pid in pids:
        p = subprocess.run([build.PY, '-m', 'vmon', 'check', pid, '--tier',
                            a.tier], cwd=VERIF, env=env, capture_output=True,
                           text=True)
        last = (p.stdout.strip().splitlines() or ['?'])[-1]
        verdicts[pid] = dict(rc=p.returncode, line=last[:200])
        print(last[:200])
    # ---- C
    lines = collections.defaultdict(lambda: collections.defaultdict(int))
    funcs = collections.defaultdict(lambda: collections.defaultdict(int))
    fstart = collections.defaultdict(dict)
    for gcda in sorted(glob.glob(os.path.join(pkg, '*.gcda'))):
        p = subprocess.run(['gcov', '-j', '-t', gcda], cwd=pkg,
                           capture_output=True, text=True)
        try:
            data = json.loads(p.stdout)
        except Exception:
            print('gcov failed for', gcda, p.stderr[-300:])
            continue
        for f in data['files']:
            fn = os.path.basename(f['file'])
            if '/BTrees/' not in f['file'] and not f['file'].startswith(
                    ('_', 'B', 'S', 'T', 'M', 's')):
                continue
            if not os.path.exists(os.path.join(build.repo_root(), 'src',
                                               'BTrees', fn)):
                continue
            if len(fn) == 11 and fn.endswith('BTree.c') and fn[0] == '_':
                fn = '_XXBTree.c'
            for ln in f['lines']:
                lines[fn][ln['line_number']] += ln['count']
            for fu in f['functions']:
                funcs[fn][fu['name']] += fu['execution_count']
                fstart[fn][fu['name']] = (fu['start_line'], fu['end_line'])
    summary = dict(verdicts=verdicts, tier=a.tier, seed=a.seed, c={}, py={})
    unreached = []
    for fn in sorted(lines):
        tot = len(lines[fn])
        hit = sum(1 for c in lines[fn].values() if c)
        summary['c'][fn] = dict(
            lines=tot, reached=hit,
            functions=len(funcs[fn]),
            functions_reached=sum(1 for c in funcs[fn].values() if c),
            functions_unreached=sorted(k for k, c in funcs[fn].items()
                                       if not c))
        src = open(os.path.join(build.repo_root(), 'src', 'BTrees', fn),
                   errors='replace').read().splitlines() \
            if fn != '_XXBTree.c' else []
        miss = sorted(n for n, c in lines[fn].items() if not c)
        byfunc = collections.defaultdict(list)
        for n in miss:
            owner = '?'
            for name, (s, e) in fstart[fn].items():
                if s <= n <= e:
                    owner = name
                    break
            byfunc[owner].append(n)
        for owner in sorted(byfunc, key=lambda k: byfunc[k][0]):
            unreached.append('%s :: %s%s' % (
                fn, owner, '  [function never called]'
                if funcs[fn].get(owner, 1) == 0 else ''))
            for n in byfunc[owner]:
                text = src[n - 1].rstrip() if 0 < n <= len(src) else ''
                unreached.append('  %5d  %s' % (n, text[:110]))
    # ---- Python
    try:
        import coverage
        cov = coverage.Coverage(data_file=os.path.join(pyc, 'pycov'))
        cov.combine([pyc])
        data = cov.get_data()
        for f in sorted(data.measured_files()):
            fn = os.path.basename(f)
            if fn.startswith('test') or '/tests/' in f:
                continue
            an = cov.analysis2(f)
            stm, missing = an[1], an[3]
            if not stm:
                continue
            summary['py'][fn] = dict(lines=len(stm),
                                     reached=len(stm) - len(missing))
            if fn in ('_base.py', '_datatypes.py', 'Length.py', 'check.py',
                      '_module_builder.py'):
                src = open(f).read().splitlines()
                unreached.append('%s :: (python)' % fn)
                for n in missing:
                    unreached.append('  %5d  %s' % (n, src[n - 1][:110]))
    except Exception as e:
        summary['py_error'] = repr(e)
    os.makedirs(a.out, exist_ok=True)
    with open(os.path.join(a.out, 'summary.json'), 'w') as fh:
        json.dump(summary, fh, indent=1, sort_keys=True)
    with open(os.path.join(a.out, 'unreached.txt'), 'w') as fh:
        fh.write('\n'.join(unreached) + '\n')
    for k in ('c', 'py'):
        for fn, d in sorted(summary[k].items()):
            print('%-28s %5d / %5d lines reached' % (fn, d['reached'],
                                                     d['lines']))
    shutil.rmtree(scratch, ignore_errors=True)
    for f in glob.glob(os.path.join(pkg, '*.gcda')):
        os.unlink(f)


if __name__ == '__main__':
    main()
