#!/usr/bin/env python3
"""usage: keep_seed.py <seed-out-dir> <x> <caught_by comma list> [note]
Copies a confirmed seeded defect into /verif/seeded/<PID>-<x>/."""
import json, os, shutil, sys
d, x, caught = sys.argv[1], sys.argv[2], sys.argv[3]
note = sys.argv[4] if len(sys.argv) > 4 else ''
pid = os.environ.get('PID') or os.path.basename(d.rstrip('/'))
out = '/verif/seeded/%s-%s' % (pid, x)
os.makedirs(out, exist_ok=True)
shutil.copy(os.path.join(d, 'patch-%s.diff' % x), os.path.join(out, 'patch.diff'))
shutil.copy(os.path.join(d, 'demo-%s.py' % x), os.path.join(out, 'demo.py'))
try:
    meta = json.load(open(os.path.join(d, 'meta-%s.json' % x)))
except Exception:
    meta = {}
m = dict(property=pid, summary=meta.get('summary'), file=meta.get('file'),
         needs_to_manifest=meta.get('needs_to_manifest'),
         origin='fresh sub-agent given only the property text and a scratch worktree',
         confirmed='tools/confirm_seed.sh: built in a scratch worktree; demo exits 0 on the clean tree and non-zero with the patch; pinned suite 1468 passed with the patch',
         ran='tools/try_seed.sh patch.diff %s (scratch worktree, VMON_REPO), quick tier, seed 0' % ' '.join(caught.split(',') if caught else []),
         caught_by=[c for c in caught.split(',') if c], note=note)
json.dump(m, open(os.path.join(out, 'meta.json'), 'w'), indent=1)
print(out)
