#!/usr/bin/env python3
"""Print the markdown rows of DESIGN.md section 13 from seeded/*/meta.json."""
import json, os, sys
root = os.path.join(os.path.dirname(os.path.dirname(os.path.abspath(__file__))), 'seeded')
want = sys.argv[1] if len(sys.argv) > 1 else 'abcdef'
for sid in sorted(os.listdir(root)):
    p = os.path.join(root, sid, 'meta.json')
    if not os.path.exists(p) or sid[-1] not in want:
        continue
    m = json.load(open(p))
    s = (m.get('summary') or '').replace('|', '/').replace('\n', ' ')
    s = s[:230] + ('...' if len(s) > 230 else '')
    note = (m.get('note') or '').replace('|', '/')
    caught = ', '.join(m.get('caught_by') or [])
    print('| %s | %s | %s | %s%s |' % (sid, os.path.basename(m.get('file') or ''), s, caught, (' — ' + note) if note else ''))
