#!/bin/bash
# usage: tools/confirm_seed.sh <seed-out-dir> <x>   e.g. /tmp/seed-out/C03 a
# Confirms in a scratch worktree: demo passes without the patch, fails with
# it, and the pinned suite still passes with it.  Prints a one-line verdict.
set -u
D=$1; X=$2
WT=$(mktemp -d /tmp/confirm-XXXXXX); rmdir "$WT"
git -C /repo worktree add -q "$WT" HEAD || exit 3
cd "$WT"
BTREES_VERIF=${HOOK:-} /venv/bin/python setup.py -q build_ext --inplace -j 16 >/dev/null 2>&1
PYTHONPATH=$WT/src timeout 600 /venv/bin/python "$D/demo-$X.py" >/dev/null 2>&1; CLEAN=$?
git apply "$D/patch-$X.diff" || { echo "CONFIRM $D $X: PATCH DOES NOT APPLY"; cd /; git -C /repo worktree remove --force "$WT"; exit 3; }
BTREES_VERIF=${HOOK:-} /venv/bin/python setup.py -q build_ext --inplace --force -j 16 >/dev/null 2>&1; BUILD=$?
PYTHONPATH=$WT/src timeout 600 /venv/bin/python "$D/demo-$X.py" >/dev/null 2>&1; PATCHED=$?
SUITE=$(PYTHONPATH=$WT/src /venv/bin/python -m pytest -q -p no:cacheprovider -n 8 src/BTrees/tests 2>&1 | tail -1)
cd /
git -C /repo worktree remove --force "$WT"
echo "CONFIRM $D $X: build=$BUILD demo_clean_exit=$CLEAN demo_patched_exit=$PATCHED suite='$SUITE'"
