#!/bin/bash
# usage: tools/try_seed.sh <patch.diff> <PID> [<PID> ...]   (env TIER=quick|thorough, SEED=n)
# Applies the patch to a scratch worktree of /repo (never to /repo itself),
# runs the given checks against it (VMON_REPO) with evidence/replays
# redirected to a scratch directory, prints the verdicts, removes everything.
set -u
PATCH=$(readlink -f "$1"); shift
WT=$(mktemp -d /tmp/seedrun-XXXXXX)
OUT=$(mktemp -d /tmp/seedout-XXXXXX)
rmdir "$WT"
git -C /repo worktree add -q "$WT" HEAD || exit 3
( cd "$WT" && git apply "$PATCH" ) || { echo "PATCH DOES NOT APPLY"; git -C /repo worktree remove --force "$WT"; exit 3; }
for PID in "$@"; do
  ( cd /verif && VMON_REPO="$WT" VMON_OUT="$OUT" VERIF_SEED=${SEED:-0} /venv/bin/python -m vmon check "$PID" --tier ${TIER:-quick} 2>&1 | grep -E "^(VIOLATION|KNOWN-FINDING|INCONCLUSIVE|C[0-9]+ )" | cut -c1-220 | awk '!seen[substr($0,1,60)]++' | grep -v "^KNOWN-FINDING" | head -${LINES_MAX:-6} )
  if [ -n "${SHOW:-}" ]; then ls "$OUT/replays" | head -3; python3 -c "
import json,glob,sys
for f in sorted(glob.glob('$OUT/replays/$PID-*.json'))[:${SHOW}]:
    v=json.load(open(f))['violation']; v.pop('shard',None); print(json.dumps(v)[:1500])
"; fi
done
git -C /repo worktree remove --force "$WT"
rm -rf "$OUT"
