#!/bin/bash
# usage: tools/sweep.sh <tier> "<seeds>" [<PID> ...]
# Runs the given checks (default: all 19) for every seed on the unchanged tree
# and prints one line per run; evidence/replays go to a scratch directory
# (VMON_OUT) so that a sweep never rewrites committed evidence.
TIER=$1; SEEDS=$2; shift 2
PIDS=${*:-C01 C02 C03 C04 C05 C06 C07 C08 C09 C10 C11 C12 C13 C14 C15 C16 C17 C18 C19}
OUT=${SWEEP_OUT:-$(pwd)/sweep-out}
mkdir -p "$OUT"
for S in $SEEDS; do for P in $PIDS; do
  t0=$(date +%s)
  VMON_OUT="$OUT/$P-$TIER-$S" VERIF_SEED=$S PYTHONHASHSEED=0 /venv/bin/python -m vmon check $P --tier $TIER > "$OUT/$P-$TIER-$S.log" 2>&1
  rc=$?
  echo "SWEEP $P tier=$TIER seed=$S rc=$rc $(( $(date +%s)-t0 ))s viol=$(grep -c '^VIOLATION' "$OUT/$P-$TIER-$S.log") :: $(tail -1 "$OUT/$P-$TIER-$S.log" | cut -c1-160)"
  grep '^VIOLATION' "$OUT/$P-$TIER-$S.log" | head -5
done; done
