#!/usr/bin/env python3
"""usage: tools/seed_brief.py <PID> <x> <y> <worktree> <outdir> [<theme-file>]
Prints the brief given to a fresh sub-agent that is asked for two seeded
defects (ids <x>, <y>) against property <PID>.  The agent gets the property
record, one-line summaries of the ideas already used for that property (so
that it looks elsewhere) and its own scratch worktree - nothing from /verif's
monitors."""
import glob
import json
import os
import sys

pid, x, y, wt, out = sys.argv[1:6]
theme = open(sys.argv[6]).read() if len(sys.argv) > 6 else ''
props = {json.loads(l)['id']: json.loads(l)
         for l in open('/verif/properties.jsonl')}
p = props[pid]
ideas = []
for d in sorted(glob.glob('/verif/seeded/%s-*' % pid)):
    m = json.load(open(d + '/meta.json'))
    s = (m.get('summary') or '').strip().replace('\n', ' ')
    ideas.append('- (%s) %s%s' % (os.path.basename(m.get('file') or '?'),
                                  s[:330], '...' if len(s) > 330 else ''))
c_only = pid in ('C16', 'C17')
py_only = pid in ('C19',)
print('''You are helping to evaluate a verification effort for the Python package
zopefoundation/BTrees (ZODB's persistent BTree/Bucket/Set/TreeSet containers: a
pure-Python implementation in src/BTrees/_base.py plus a C implementation built
from src/BTrees/*Template.c, 22 key/value families).  Your job is to play the
part of a developer who introduces a subtle, REALISTIC regression.

Your own scratch git worktree of the repository is at %(wt)s (already
built in place: the compiled extension modules are in %(wt)s/src/BTrees).
Work ONLY inside that directory and inside the output directory %(out)s.
Never read, list or write anything under /verif or /repo, and do not look at
other directories under /tmp.  There is no network.

Commands that work here:
  rebuild the C extensions after editing C sources:
      cd %(wt)s && /venv/bin/python setup.py -q build_ext --inplace --force -j 8
  run the existing test suite (must stay green: "1468 passed"):
      cd %(wt)s && PYTHONPATH=%(wt)s/src /venv/bin/python -m pytest -q -p no:cacheprovider -n 4 src/BTrees/tests
  run a script against your tree:
      PYTHONPATH=%(wt)s/src /venv/bin/python script.py
  (classes named XXBTree are the C ones, XXBTreePy the pure-Python ones, both
  importable from BTrees.XXBTree; `persistent` and `transaction` are installed,
  ZODB is NOT - if you need a data manager, write a tiny stand-in jar with
  register / setstate / readCurrent / oldstate methods and set obj._p_jar /
  obj._p_oid yourself.)

THE PROPERTY (this is all you are given about what is being verified):

%(prop)s

THE TASK.  Produce TWO independent changes to the package's source code, ids
"%(x)s" and "%(y)s", each of which
  * makes the property above FALSE for some input / history / schedule / fault,
  * still compiles, and keeps the existing test suite fully green (1468 passed),
  * looks like something a maintainer could plausibly commit (a tidy-up, an
    optimisation, a refactoring, a "fix", a modernisation) - not sabotage,
  * needs something SPECIFIC to manifest: a particular multi-step sequence, a
    particular family or container kind, a particular tree shape, a boundary
    value, a fault at a particular point, state left behind by an earlier call
    or transaction, an object that was stored, evicted and reloaded, or two
    edited sites that each look fine alone.  A change that ordinary use would
    expose at once is of no interest.
%(langrule)s
Each change is made on a CLEAN tree (they are alternatives, not cumulative):
make change %(x)s, save it, `git checkout -- .` (and rebuild), then make change %(y)s.

Ideas already used by earlier people for this property - do NOT reuse them or
close variants; look for a different mechanism, a different function or a
different trigger:
%(ideas)s

%(theme)s
DELIVERABLES, for each id z in (%(x)s, %(y)s), written to %(out)s:
  patch-z.diff   output of `git diff` in your worktree (must apply with
                 `git apply` to a clean checkout of the same commit)
  demo-z.py      a self-contained script (run as
                 `PYTHONPATH=<tree>/src /venv/bin/python demo-z.py`) that exits 0
                 on the unchanged tree and exits non-zero (assertion failure or
                 crash) on the tree with the patch; it must be deterministic and
                 finish in under a minute
  meta-z.json    {"summary": "<what was changed and why it breaks the property,
                 4-8 sentences>", "file": "<main file touched>",
                 "needs_to_manifest": "<precisely what input / sequence / fault
                 / configuration is needed to see it>"}
YOU MUST VERIFY, yourself, for each change: (1) it builds; (2) the full test
suite prints "1468 passed" with the change; (3) the demo exits non-zero with
the change; (4) after `git checkout -- .` (and a rebuild if C was touched) the
demo exits 0.  Leave the worktree clean (`git checkout -- .`, rebuilt) when
you finish.  If an idea turns out to be caught by the test suite, pick another
one rather than editing tests.  Your final message: for each id one paragraph
(what, where, trigger) plus the four verification results.
''' % dict(
    wt=wt, out=out, x=x, y=y,
    prop=json.dumps(p, indent=1),
    ideas='\n'.join(ideas),
    theme=theme,
    langrule=(
        'Both changes go into the C sources (this property is about the C '
        'implementation).\n' if c_only else
        'Both changes go into src/BTrees/Length.py (or what it relies on).\n'
        if py_only else
        'Change %s goes into the C sources (src/BTrees/*.c, *.h); change %s '
        'goes into the pure-Python\nimplementation (src/BTrees/_base.py, '
        '_datatypes.py, check.py, ...), unless the property is only about one '
        'of them.\n' % (x, y))))
