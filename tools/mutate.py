#!/venv/bin/python
"""usage: tools/mutate.py [--lang py|c] [--limit N] [--start K] [--jobs J] [--only REGEX] [--out FILE]

Mechanical mutation sweep - a second, agent-free measure of how sensitive the
monitors are.  Small syntactic mutants of the implementation are generated
(one change each); every mutant is applied to a scratch worktree of /repo
OUTSIDE /repo and /verif, then

  1. the pinned test suite runs: a mutant it kills is of no interest here;
  2. otherwise the quick checks run in turn (cheapest and most general
     first) until one reports a VIOLATION -> "killed by <check>";
  3. a mutant that survives the suite AND all checks is written to the
     report for review: either it is equivalent (behaviour unchanged), or it
     changes something no property talks about, or it is a blind spot.

Mutation operators (per matching line, one mutant per occurrence):
  py: drop `self._p_changed = True`; flip < <= > >= == != ; and <-> or ;
      +1 <-> -1 ; drop `not ` ; True <-> False ; `is None` <-> `is not None`
  c : drop PER_CHANGED / INCREF / DECREF statements; flip comparison
      operators in `if`/`while`/`for` lines; +1 <-> -1 ; && <-> || ;
      drop `!` in conditions

Nothing is written to /repo, evidence/ or replays/.  Results are appended to
--out (default /verif/mutants/<lang>.jsonl), one JSON line per mutant, so a
sweep can be resumed with --start.
"""
import argparse
import json
import os
import re
import shutil
import subprocess
import sys
import tempfile
from concurrent.futures import ThreadPoolExecutor

VERIF = os.path.dirname(os.path.dirname(os.path.abspath(__file__)))
PY_FILES = ['src/BTrees/_base.py', 'src/BTrees/_datatypes.py',
            'src/BTrees/Length.py', 'src/BTrees/check.py']
C_FILES = ['src/BTrees/BTreeTemplate.c', 'src/BTrees/BucketTemplate.c',
           'src/BTrees/SetTemplate.c', 'src/BTrees/TreeSetTemplate.c',
           'src/BTrees/BTreeItemsTemplate.c', 'src/BTrees/SetOpTemplate.c',
           'src/BTrees/MergeTemplate.c', 'src/BTrees/sorters.c',
           'src/BTrees/BTreeModuleTemplate.c']

# order: most general / cheapest first
ORDER_PY = ['C09', 'C01', 'C02', 'C03', 'C04', 'C06', 'C07', 'C08', 'C10',
            'C12', 'C11', 'C13', 'C05', 'C15', 'C18', 'C19', 'C14']
ORDER_C = ['C09', 'C01', 'C02', 'C03', 'C04', 'C06', 'C07', 'C08', 'C10',
           'C12', 'C11', 'C13', 'C05', 'C15', 'C18', 'C16', 'C14', 'C17']

FLIPS = [('<=', '<'), ('>=', '>'), ('==', '!='), ('!=', '=='),
         (' < ', ' <= '), (' > ', ' >= ')]


def py_mutants(path, text):
    lines = text.split('\n')
    out = []
    in_doc = False
    for i, ln in enumerate(lines):
        st = ln.strip()
        if st.count('"""') % 2 == 1:
            in_doc = not in_doc
            continue
        if in_doc or not st or st.startswith('#') or st.startswith(('"', "'")):
            continue
        code = ln.split('  #')[0]

        def add(new, what):
            if new != ln:
                out.append((i, new, what))
        if st == 'self._p_changed = True':
            add(ln.replace('self._p_changed = True', 'pass'),
                'drop _p_changed')
        if re.match(r'\s*(if|elif|while|return|assert)\b', code) or \
                ' if ' in code:
            for a, b in FLIPS:
                for m in re.finditer(re.escape(a), code):
                    # skip '<=' when matching ' < ' etc. is handled by the
                    # padded patterns
                    new = ln[:m.start()] + b + ln[m.end():]
                    add(new, '%s -> %s' % (a.strip(), b.strip()))
            for a, b in ((' and ', ' or '), (' or ', ' and ')):
                for m in re.finditer(a, code):
                    add(ln[:m.start()] + b + ln[m.end():],
                        '%s -> %s' % (a.strip(), b.strip()))
            for m in re.finditer(r'\bnot ', code):
                add(ln[:m.start()] + ln[m.end():], 'drop not')
            for a, b in ((' is None', ' is not None'),
                         (' is not None', ' is None')):
                for m in re.finditer(re.escape(a) + r'\b', code):
                    if a == ' is None' and ln[m.start():].startswith(
                            ' is not None'):
                        continue
                    add(ln[:m.start()] + b + ln[m.end():],
                        '%s -> %s' % (a.strip(), b.strip()))
        for a, b in ((' + 1', ' - 1'), (' - 1', ' + 1'), (' + 1', ''),
                     (' - 1', '')):
            for m in re.finditer(re.escape(a) + r'\b', code):
                add(ln[:m.start()] + b + ln[m.end():],
                    '%s -> %s' % (a.strip(), b.strip() or 'dropped'))
        for a, b in (('True', 'False'), ('False', 'True')):
            for m in re.finditer(r'\b%s\b' % a, code):
                if '_p_changed' in code and a == 'True':
                    continue
                add(ln[:m.start()] + b + ln[m.end():], '%s -> %s' % (a, b))
    return out


def c_mutants(path, text):
    lines = text.split('\n')
    out = []
    in_comment = False
    for i, ln in enumerate(lines):
        st = ln.strip()
        if in_comment:
            if '*/' in st:
                in_comment = False
            continue
        if st.startswith('/*'):
            if '*/' not in st:
                in_comment = True
            continue
        if not st or st.startswith(('//', '*', '#')):
            continue
        code = ln.split('/*')[0]

        def add(new, what):
            if new != ln:
                out.append((i, new, what))
        if re.match(r'\s*(if \(PER_CHANGED\(|PER_CHANGED\()', code) and \
                st.endswith(';'):
            add(re.sub(r'PER_CHANGED\([^)]*\)', '0', ln, 1),
                'drop PER_CHANGED')
        m = re.match(r'(\s*)((Py_X?INCREF|Py_X?DECREF|INCREF_KEY|DECREF_KEY|'
                     r'INCREF_VALUE|DECREF_VALUE)\([^;]*\);)\s*$', code)
        if m:
            add(m.group(1) + ';', 'drop ' + m.group(3))
        if re.match(r'\s*(if|while|for|else if|UNLESS)\b', code) or \
                re.match(r'\s*(return|[a-z_A-Z>.\-\[\]0-9]+ =) .*[<>=!]=?',
                         code):
            for a, b in FLIPS:
                for mm in re.finditer(re.escape(a), code):
                    if a in ('<=', '>=', '==', '!=') or True:
                        if a == '==' and code[mm.start() - 1:mm.start()] in \
                                ('=', '!', '<', '>'):
                            continue
                        new = ln[:mm.start()] + b + ln[mm.end():]
                        if '->' in ln[max(0, mm.start() - 1):mm.end() + 1]:
                            continue
                        add(new, '%s -> %s' % (a.strip(), b.strip()))
            for a, b in ((' && ', ' || '), (' || ', ' && ')):
                for mm in re.finditer(re.escape(a), code):
                    add(ln[:mm.start()] + b + ln[mm.end():],
                        '%s -> %s' % (a.strip(), b.strip()))
            for mm in re.finditer(r'\(!\s*', code):
                add(ln[:mm.start()] + '(' + ln[mm.end():], 'drop !')
        for a, b in ((' + 1', ' - 1'), (' - 1', ' + 1'), (' + 1', ''),
                     (' - 1', '')):
            for mm in re.finditer(re.escape(a) + r'\b', code):
                add(ln[:mm.start()] + b + ln[mm.end():],
                    '%s -> %s' % (a.strip(), b.strip() or 'dropped'))
    return out


def generate(lang):
    muts = []
    for rel in (PY_FILES if lang == 'py' else C_FILES):
        text = open(os.path.join('/repo', rel)).read()
        fn = py_mutants if lang == 'py' else c_mutants
        for i, new, what in fn(rel, text):
            muts.append(dict(file=rel, line=i + 1, what=what, new=new,
                             old=text.split('\n')[i]))
    # stable order, de-duplicated
    seen = set()
    out = []
    for m in muts:
        k = (m['file'], m['line'], m['new'])
        if k not in seen:
            seen.add(k)
            out.append(m)
    return out


def run_mutant(idx, m, a):
    wt = tempfile.mkdtemp(prefix='mut-%d-' % idx)
    os.rmdir(wt)
    out = tempfile.mkdtemp(prefix='mut-out-')
    res = dict(idx=idx, file=m['file'], line=m['line'], what=m['what'],
               old=m['old'].strip(), new=m['new'].strip())
    try:
        subprocess.run(['git', '-C', '/repo', 'worktree', 'add', '-q', wt,
                        'HEAD'], check=True, capture_output=True)
        p = os.path.join(wt, m['file'])
        lines = open(p).read().split('\n')
        assert lines[m['line'] - 1] == m['old']
        lines[m['line'] - 1] = m['new']
        open(p, 'w').write('\n'.join(lines))
        env = dict(os.environ, PYTHONHASHSEED='0')
        if a.lang == 'py':
            r = subprocess.run(['/venv/bin/python', '-m', 'py_compile', p],
                               capture_output=True)
            if r.returncode:
                res['verdict'] = 'does-not-compile'
                return res
            # the suite needs compiled modules next to the .py files: reuse
            # /repo's in-place build
            for fn in os.listdir('/repo/src/BTrees'):
                if fn.endswith('.so'):
                    os.link(os.path.join('/repo/src/BTrees', fn),
                            os.path.join(wt, 'src/BTrees', fn))
        else:
            r = subprocess.run(['/venv/bin/python', 'setup.py', '-q',
                                'build_ext', '--inplace', '--force', '-j',
                                '8'], cwd=wt, capture_output=True, text=True)
            if r.returncode:
                res['verdict'] = 'does-not-compile'
                return res
        r = subprocess.run(
            ['/venv/bin/python', '-m', 'pytest', '-q', '-x', '-p',
             'no:cacheprovider', '-n', '4', 'src/BTrees/tests'],
            cwd=wt, env=dict(env, PYTHONPATH=os.path.join(wt, 'src')),
            capture_output=True, text=True, timeout=1200)
        tail = (r.stdout.strip().splitlines() or [''])[-1]
        if r.returncode != 0:
            res['verdict'] = 'killed-by-suite'
            res['suite'] = tail[:120]
            return res
        env.update(VMON_REPO=wt, VMON_OUT=out, VERIF_SEED=str(a.seed))
        order = ORDER_PY if a.lang == 'py' else ORDER_C
        if m['file'].endswith('Length.py'):
            order = ['C19']
        if m['file'].endswith('check.py'):
            order = ['C18', 'C03']
        for c in order:
            r = subprocess.run(['/venv/bin/python', '-m', 'vmon', 'check', c,
                                '--tier', 'quick', '--jobs', str(a.cjobs)],
                               cwd=VERIF, env=env, capture_output=True,
                               text=True, timeout=3600)
            if r.returncode == 1 and 'VIOLATION' in r.stdout:
                res['verdict'] = 'killed-by-check'
                res['check'] = c
                mech = re.search(r'"mechanism": "([^"]+)"', r.stdout)
                res['mechanism'] = mech.group(1) if mech else None
                return res
            if r.returncode == 2:
                res.setdefault('inconclusive', []).append(c)
        res['verdict'] = 'SURVIVED'
        return res
    except Exception as e:
        res['verdict'] = 'tool-error'
        res['error'] = repr(e)[:300]
        return res
    finally:
        subprocess.run(['git', '-C', '/repo', 'worktree', 'remove', '--force',
                        wt], capture_output=True)
        shutil.rmtree(wt, ignore_errors=True)
        shutil.rmtree(out, ignore_errors=True)


def main():
    ap = argparse.ArgumentParser()
    ap.add_argument('--lang', default='py', choices=['py', 'c'])
    ap.add_argument('--limit', type=int, default=0)
    ap.add_argument('--start', type=int, default=0)
    ap.add_argument('--stride', type=int, default=1)
    ap.add_argument('--jobs', type=int, default=2)
    ap.add_argument('--cjobs', type=int, default=6)
    ap.add_argument('--seed', type=int, default=0)
    ap.add_argument('--only', default='')
    ap.add_argument('--list', action='store_true')
    ap.add_argument('--out', default='')
    ap.add_argument('--skip-done', default='',
                    help='jsonl file(s), comma separated: skip mutants '
                         'already listed there (same file, line, new text)')
    a = ap.parse_args()
    muts = generate(a.lang)
    sel = list(enumerate(muts))
    if a.only:
        sel = [(i, m) for i, m in sel if re.search(a.only, '%s:%d %s' % (
            m['file'], m['line'], m['what']))]
    if a.skip_done:
        done = set()
        for fn in a.skip_done.split(','):
            if os.path.exists(fn):
                for ln in open(fn):
                    r = json.loads(ln)
                    done.add((r['file'], r['line'], r['new']))
        sel = [(i, m) for i, m in sel
               if (m['file'], m['line'], m['new'].strip()) not in done]
    sel = sel[a.start::a.stride]
    if a.limit:
        sel = sel[:a.limit]
    print('%d mutants generated, %d selected' % (len(muts), len(sel)))
    if a.list:
        for i, m in sel:
            print(i, m['file'], m['line'], m['what'], '|', m['new'].strip())
        return
    outp = a.out or os.path.join(VERIF, 'mutants', a.lang + '.jsonl')
    os.makedirs(os.path.dirname(outp), exist_ok=True)
    with ThreadPoolExecutor(a.jobs) as ex, open(outp, 'a') as fh:
        for res in ex.map(lambda im: run_mutant(im[0], im[1], a), sel):
            fh.write(json.dumps(res) + '\n')
            fh.flush()
            print('%4d %-28s %4d %-18s %s %s' % (
                res['idx'], os.path.basename(res['file']), res['line'],
                res['what'][:18], res['verdict'], res.get('check', '')),
                flush=True)


if __name__ == '__main__':
    main()
