"""Lock-step execution of a generated history on a real container and on the
reference model, with optional structural checks after every mutating call.
Shared by C01, C03 (and, with a data manager attached, C04/C05)."""
from .harness import safe_repr as _srepr  # noqa: E402
from . import gen, harness, walker
from .harness import MUTATING_OPS, SINGLE_KEY_OPS, brief, call, eq
from .model import RefMap, RefSet

_check_mod = None


def btrees_check(t):
    global _check_mod
    if _check_mod is None:
        from BTrees import check as _c
        _check_mod = _c
    _check_mod.check(t)


def make_container(fam, kind, impl, sizes=None, via_subclass=False):
    cls = fam.cls(kind, impl)
    if kind in ('BTree', 'TreeSet') and sizes:
        if via_subclass:
            cls = harness.subclass_with_sizes(cls, *sizes)
        else:
            harness.set_node_sizes(cls, *sizes)
    return cls()


def structural_checks(t, is_mapping, use_check_module=True, sizes=True):
    """-> list of (checker, message).  Empty when the tree is sound."""
    errs = []
    try:
        t._check()
    except AssertionError as e:
        errs.append(('_check', str(e)))
    except Exception as e:
        errs.append(('_check', '%s: %s' % (type(e).__name__, e)))
    if use_check_module:
        try:
            btrees_check(t)
        except AssertionError as e:
            errs.append(('check', str(e)[:300]))
        except Exception as e:
            errs.append(('check-raised', '%s: %s' % (type(e).__name__,
                                                     str(e)[:200])))
    try:
        w = walker.walk(t, is_mapping, check_sizes=sizes)
        for m in w.errors[:3]:
            errs.append(('walker', m))
    except Exception as e:
        w = None
        errs.append(('walker-raised', '%s: %s' % (type(e).__name__, e)))
    return errs, w


def attach_db(ls, rec, p_refuse=0.05, p_commit=0.3, p_sweep=0.3,
              p_loadfail=0.05):
    """Put the (still empty, never stored) container of a LockStep into a
    MiniDB: it is committed and swept between calls and the data manager now
    and then refuses a read dependency.  F22 / F34 shapes are never
    committed.  -> the connection."""
    from . import minidb
    conn = minidb.Connection(minidb.Storage(), ls.impl)
    conn.log_events = False
    conn.add(ls.c)
    conn.commit()
    ls.fault_conn = conn
    ls.p_refuse = p_refuse
    ls.p_loadfail = p_loadfail
    ls.p_regfail = 0.08
    state = {'stop': False}
    impl = ls.impl

    def hook(ls_, op, args):
        if state['stop']:
            return True
        if ls_.is_tree:
            w = ls_.walk if ls_.walk is not None else ls_.current_walk()
            if w is None or w.inline_nonroot:
                return True
        r = ls_.rng.random()
        if r < p_commit:
            try:
                conn.commit()
            except Exception:
                state['stop'] = True      # unpicklable datum: plain from here
                return True
            rec.ev(impl + ':stored:commit')
            if ls_.is_tree and minidb.embedded_but_leaf_has_oid(conn, ls_.c):
                state['stop'] = True      # F34 condition
        elif r < p_commit + p_sweep:
            conn.cache.minimize()
            rec.ev(impl + ':stored:sweep')
        return True
    ls.hooks_after.append(hook)
    return conn


class LockStep:
    """Drives one container and its model through generated operations."""

    def __init__(self, fam, kind, impl, rng, rec, sizes=None,
                 via_subclass=False, structure=False, container=None,
                 adversarial=0.35, use_check_module=True, read_ops=True,
                 judge=True):
        self.fam, self.kind, self.impl = fam, kind, impl
        self.rng, self.rec = rng, rec
        self.is_mapping = kind in ('BTree', 'Bucket')
        self.is_tree = kind in ('BTree', 'TreeSet')
        self.sizes = sizes
        self.via_subclass = via_subclass
        self.structure = structure and self.is_tree
        self.use_check_module = use_check_module
        self.judge = judge
        self.c = container if container is not None else make_container(
            fam, kind, impl, sizes, via_subclass)
        self.m = RefMap(fam) if self.is_mapping else RefSet(fam)
        self.g = gen.HistoryGen(fam, kind, rng, adversarial=adversarial,
                                read_ops=read_ops)
        if sizes:
            self.g.max_leaf = sizes[0]
        self.log = []
        self.walk = None
        self.failed = False
        self.last_tag = None
        self.hooks_after = []   # callables(self, op, args) after each call
        # a MiniDB connection whose readCurrent() may be made to refuse
        # (data-manager fault): set by checks that store the container
        self.fault_conn = None
        self.p_refuse = 0.0
        # ... and whose setstate() may be made to refuse the n-th load of a
        # single-key call made right after a cache sweep
        self.p_loadfail = 0.0
        # ... or refuse to register a pure-Python leaf (the step commits
        # first, so only checks that keep no books on commits switch it on)
        self.p_regfail = 0.0
        # node-size limits hold for containers filled through the API; an
        # insert whose split was cut short by a refused load legitimately
        # leaves an over-full node behind (then the limits are off)
        self.check_sizes = True

    def describe(self):
        return dict(family=self.fam.name, kind=self.kind, impl=self.impl,
                    sizes=self.sizes, via_subclass=self.via_subclass)

    def violation(self, mechanism, _raw=None, **kw):
        d = self.describe()
        d.update(kw)
        from . import findings
        tag = findings.diagnose_hist(self, mechanism, _raw or {})
        if not tag and getattr(self, 'damaged_db_finding', None):
            # the stored database of this history is already damaged in the
            # way a recorded finding describes (set by the check that owns
            # the history): what follows is its consequence
            tag = self.damaged_db_finding
        self.last_tag = tag
        if tag:
            d['finding'] = tag
        d['history'] = [brief(x, 120) for x in self.log[-60:]]
        d['history_len'] = len(self.log)
        self.rec.violation(mechanism, **d)
        self.failed = True

    def _set_model(self, contents):
        self.m = RefMap(self.fam) if self.is_mapping else RefSet(self.fam)
        if self.is_mapping:
            self.m.d = dict(contents)
        else:
            self.m.s = set(contents)

    def current_walk(self):
        if not self.is_tree:
            return None
        try:
            return walker.walk(self.c, self.is_mapping)
        except Exception:
            return None

    def step(self, op=None, args=None):
        rec = self.rec
        present = self.m.sorted_keys()
        if self.is_tree and self.walk is None:
            self.walk = self.current_walk()
        if op is None:
            op, args = self.g.next_op(self.walk, present)
        self.log.append((op, args))
        rec.journal(_srepr((self.describe(), self.log[-40:])))
        try:
            rargs = tuple(gen.materialize(a, self.fam, self.impl, self.c,
                                          False) for a in args)
        except Exception as e:
            # an operand container could not even be built from in-domain
            # data
            self.violation('operand-construction-raised', op=op,
                           args=brief(args),
                           detail='%s: %s' % (type(e).__name__, e))
            return False
        margs = tuple(gen.materialize(a, self.fam, self.impl, self.m, True)
                      for a in args)
        before = self.walk
        self._pre_contents = self.m.contents()
        refuse = (self.fault_conn is not None and self.is_tree and
                  op in SINGLE_KEY_OPS and op in MUTATING_OPS and
                  self.rng.random() < self.p_refuse)
        loadfail = (not refuse and self.fault_conn is not None and
                    self.p_loadfail and op in SINGLE_KEY_OPS and
                    self.rng.random() < self.p_loadfail)
        # the data manager refuses to take the node into its transaction
        # (register() raises).  Only where the unchanged code is clean: a
        # pure-Python Bucket / Set announces the change BEFORE it makes it
        # (the C leaves and every tree make it first: DESIGN section 8)
        regfail = (not refuse and not loadfail and
                   self.fault_conn is not None and not self.is_tree and
                   self.impl == 'py' and op in SINGLE_KEY_OPS and
                   op in MUTATING_OPS and
                   getattr(self.fault_conn, 'fail_register', None) == 0 and
                   self.rng.random() < self.p_regfail)
        if regfail:
            try:
                self.fault_conn.commit()    # (so that the call has to register)
                self.fault_conn.fail_register = 1
            except Exception:
                regfail = False
        if refuse:
            self.fault_conn.fail_read_current = 1
        if loadfail:
            # everything that is committed becomes a ghost; the n-th load
            # the call needs is refused by the data manager
            self.fault_conn.cache.minimize()
            self.fault_conn.fail_setstate = self.rng.randint(1, 6)
        try:
            ro = call(self.c, op, rargs)
        finally:
            if refuse:
                self.fault_conn.fail_read_current = 0
            if loadfail:
                self.fault_conn.fail_setstate = 0
            if regfail:
                self.fault_conn.fail_register = 0
        if regfail and ro[0] == 'exc' and ro[1] == 'DMBoom':
            rec.evaluations += 1
            rec.ev(self.impl + ':registration-refused')
            try:
                got = harness.contents(self.c, self.is_mapping)
            except Exception as e:
                self.violation('contents-raised', op=op, args=brief(args),
                               detail='%s: %s' % (type(e).__name__, e))
                return False
            if not eq(got, self._pre_contents):
                self.violation('refused-call-changed-contents', op=op,
                               args=brief(args), observed=brief(got, 300),
                               expected=brief(self._pre_contents, 300),
                               fault='register() refused')
                return False
            return True
        if loadfail and ro[0] == 'exc' and ro[1] == 'DMBoom':
            return self._after_refused_load(op, args, rargs, margs, before)
        if refuse and ro[0] == 'exc' and ro[1] == 'DMBoom':
            # the data manager refused the read dependency: the call must
            # have failed cleanly
            rec.evaluations += 1
            rec.ev(self.impl + ':read-dependency-refused')
            try:
                got = harness.contents(self.c, self.is_mapping)
            except Exception as e:
                self.violation('contents-raised', op=op, args=brief(args),
                               detail='%s: %s' % (type(e).__name__, e))
                return False
            if not eq(got, self._pre_contents):
                self.violation('refused-call-changed-contents', op=op,
                               args=brief(args), observed=brief(got, 300),
                               expected=brief(self._pre_contents, 300))
                return False
            errs, w = structural_checks(self.c, self.is_mapping,
                                        self.use_check_module,
                                        sizes=self.check_sizes)
            if errs:
                self.violation('structure', op=op, args=brief(args),
                               checker=errs[0][0], errors=errs[:4],
                               after='refused read dependency')
                return False
            self.walk = w
            return True
        mo = call(self.m, op, margs)
        rec.evaluations += 1
        rec.ev('op:' + op)
        ignore_result = op in ('update', 'supdate', 'ior', 'iand', 'isub',
                               'ixor', 'clear')
        ok = True
        if ro[0] != mo[0]:
            ok = False
        elif ro[0] == 'exc':
            ok = ro[1] == mo[1]
        elif op in ('popitem', 'spop'):
            # "some pair": any entry that was present
            if op == 'spop':
                ok = ro[1] in present or any(eq(ro[1], p) for p in present)
                # keep the model in step with what was actually removed
                if ok and not eq(ro[1], mo[1]):
                    self.m.add(mo[1])
                    self.m.remove(ro[1])
            else:
                ok = eq(ro[1], mo[1])
        elif not ignore_result:
            ok = eq(ro[1], mo[1])
        if not ok and self.judge == 'contents':
            # results are C01's business here; keep the model in step
            rec.ev('result-mismatch-ignored')
            try:
                got0 = harness.contents(self.c, self.is_mapping)
            except Exception:
                got0 = None
            if got0 is not None and not eq(got0, self.m.contents()):
                if op in MUTATING_OPS and ro[0] == 'exc' and mo[0] == 'ok' \
                        and eq(got0, self._pre_contents):
                    # the real call refused and changed nothing: undo model
                    self._set_model(self._pre_contents)
        elif not ok and self.judge:
            self.violation('result-mismatch', op=op, args=brief(args),
                           observed=brief(ro[:2]), expected=brief(mo[:2]),
                           detail=brief(ro[2]),
                           _raw=dict(op=op, args=rargs, ro=ro, mo=mo,
                                     present=present, walk=before,
                                     margs=margs))
            if not self.last_tag or (op in MUTATING_OPS and
                                     ro[0] != mo[0]):
                return False
            # a result mismatch that is an instance of a recorded finding:
            # keep going (the contents comparison below still applies)
            self.failed = False
        outcome = 'exc:' + ro[1] if ro[0] == 'exc' else 'ok'
        # contents after every call
        try:
            got = harness.contents(self.c, self.is_mapping)
            ln = len(self.c)
            bl = bool(self.c)
            it = list(self.c)
        except Exception as e:
            self.violation('contents-raised', op=op, args=brief(args),
                           detail='%s: %s' % (type(e).__name__, e))
            return False
        want = self.m.contents()
        if not self.judge and not eq(got, want):
            # structure-only mode: results are another property's business;
            # keep the model in step with what the container really holds
            self._set_model(got)
            want = got
            rec.ev('resync')
        elif not eq(got, want) or ln != len(want) or bl != bool(want) or \
                not eq(it, self.m.sorted_keys()):
            self.violation('contents-mismatch', op=op, args=brief(args),
                           outcome=outcome, observed=brief(got, 400),
                           expected=brief(want, 400), len=ln, bool=bl,
                           _raw=dict(op=op, args=rargs, got=got, want=want,
                                     present=present, walk=before))
            return False
        if self.is_tree and (op in MUTATING_OPS):
            if self.structure:
                errs, w = structural_checks(self.c, self.is_mapping,
                                            self.use_check_module,
                                            sizes=self.check_sizes)
                rec.ev('structure-checks')
                if errs:
                    self.violation('structure', op=op, args=brief(args),
                                   checker=errs[0][0], errors=errs[:4])
                    return False
                self.walk = w
            else:
                self.walk = self.current_walk()
            w = self.walk
            if w is not None:
                for e in walker.diff_events(before, w):
                    rec.ev(self.impl + ':' + e)
                if w.height >= 3:
                    rec.ev(self.impl + ':height>=3')
                if w.single_child_root:
                    rec.ev(self.impl + ':single_child_root')
                if op == 'clear' and before is not None and before.height >= 2:
                    rec.ev(self.impl + ':clear_multilevel')
                rec.seen(self.impl, self.kind, op, outcome,
                         walker.shape_class(w))
                if self.sizes and before is not None:
                    mls, mis = self.sizes
                    if before.max_leaf_fill == mls and \
                            len(w.leaf_keys) > len(before.leaf_keys):
                        rec.ev(self.impl + ':full_leaf_split')
                    if before.max_int_fill == mis and \
                            w.n_interior > before.n_interior:
                        rec.ev(self.impl + ':full_interior_split')
                    if before.root_size == 2 * mis - 1 and \
                            w.height > before.height:
                        rec.ev(self.impl + ':full_root_split')
        else:
            rec.seen(self.impl, self.kind, op, outcome, min(len(want), 5))
        if op in SINGLE_KEY_OPS and ro[0] == 'exc':
            rec.ev('single-key-raise-unchanged')
        if want and (want[0][0] if self.is_mapping else want[0]) is None:
            rec.ev('none-key-present')
        for h in self.hooks_after:
            if h(self, op, args) is False:
                return False
        return True

    def _after_refused_load(self, op, args, rargs, margs, before):
        """The data manager refused to load a node in the middle of a
        single-key call (DMBoom reached the caller).  The container must be
        sound, hold the previous contents or the completed change, and none
        of its nodes may stay pinned."""
        rec = self.rec
        rec.evaluations += 1
        rec.ev(self.impl + ':load-refused')
        rec.ev(self.impl + ':load-refused:' + ('write' if op in MUTATING_OPS
                                               else 'read'))
        pinned = self.fault_conn.sticky_objects()
        if pinned:
            self.violation('node-left-pinned', op=op, args=brief(args),
                           after='refused load',
                           nodes=[type(o).__name__ for o in pinned][:4])
            return False
        del pinned
        if self.is_tree:
            # (no size limits: an insert whose split could not load what it
            # needs leaves the key in an over-full node - the completed
            # change in a sound tree)
            errs, w = structural_checks(self.c, self.is_mapping,
                                        self.use_check_module, sizes=False)
            if errs:
                self.violation('structure-after-refused-load', op=op,
                               args=brief(args), checker=errs[0][0],
                               errors=errs[:4], stored=True,
                               _raw=dict(op=op, args=rargs, walk=before,
                                         present=self.m.sorted_keys()))
                return False
            self.walk = w
            # (sizes=None: whatever the class says at the moment)
            lim = self.sizes or (
                getattr(type(self.c), 'max_leaf_size', None),
                getattr(type(self.c), 'max_internal_size', None))
            if self.check_sizes and w is not None and (
                    not lim[0] or not lim[1] or
                    w.max_leaf_fill > lim[0] or
                    w.max_int_fill > lim[1] or
                    w.root_size >= 2 * lim[1]):
                rec.ev(self.impl + ':load-refused:over-full-node')
                self.check_sizes = False
        try:
            got = harness.contents(self.c, self.is_mapping)
        except Exception as e:
            self.violation('contents-raised', op=op, args=brief(args),
                           after='refused load',
                           detail='%s: %s' % (type(e).__name__, e))
            return False
        if eq(got, self._pre_contents):
            rec.ev(self.impl + ':load-refused:unchanged')
            return True
        mo = call(self.m, op, margs)
        if op in MUTATING_OPS and mo[0] == 'ok' and \
                eq(got, self.m.contents()):
            rec.ev(self.impl + ':load-refused:completed')
            return True
        if op in MUTATING_OPS and mo[0] == 'ok' and self.impl == 'py' and \
                self.fam.vc == 'F':
            # (F08, judged where results are judged: the pure-Python float
            # families keep doubles; here only "completed or not" matters)
            from .families import f32

            def rnd(x):
                if isinstance(x, float):
                    try:
                        return f32(x)
                    except OverflowError:
                        return float('inf') if x > 0 else float('-inf')
                if isinstance(x, (list, tuple)):
                    return [rnd(y) for y in x]
                return x
            if eq(rnd(got), rnd(self.m.contents())):
                rec.ev(self.impl + ':load-refused:completed')
                self._set_model(got)
                return True
        self.violation('partial-change-after-refused-load', op=op,
                       args=brief(args), observed=brief(got, 300),
                       before=brief(self._pre_contents, 300))
        return False

    # -- deliberately failing single-key calls --------------------------
    def bad_step(self):
        """A writing call with an unusable key or value: it must raise and
        leave the contents (and the structure) unchanged."""
        from . import families as F
        rng, rec, fam = self.rng, self.rec, self.fam
        present = self.m.sorted_keys()
        pal = getattr(self, '_pal', None)
        if pal is None:
            pal = self._pal = F.hostile_palette()
        badkeys = [v for _, v in pal if not fam.key_ok(v) and
                   not F.is_duck_number(v)]
        badvals = [v for _, v in pal if self.is_mapping and
                   not fam.val_ok(v) and not F.is_duck_number(v)]
        good = rng.choice(present) if present and rng.random() < .5 \
            else rng.choice(self.g.universe)
        if self.is_mapping:
            cands = []
            if badkeys:
                bk = rng.choice(badkeys)
                cands += [('setitem', (bk, self.g._val())),
                          ('setdefault', (bk, self.g._val())),
                          ('delitem', (bk,)), ('pop', (bk,))]
                if self.kind == 'BTree':
                    cands.append(('insert', (bk, self.g._val())))
            if badvals:
                bv = rng.choice(badvals)
                cands += [('setitem', (good, bv)), ('setitem', (good, bv)),
                          ('setdefault', (good, bv))]
                if self.kind == 'BTree':
                    cands.append(('insert', (good, bv)))
        else:
            cands = []
            if badkeys:
                bk = rng.choice(badkeys)
                cands += [('add', (bk,)), ('remove', (bk,)),
                          ('sinsert', (bk,))]
        if not cands:
            return True
        op, args = rng.choice(cands)
        self.log.append((op, args))
        rec.journal(_srepr((self.describe(), self.log[-40:])))
        ro = call(self.c, op, args)
        rec.evaluations += 1
        rec.ev('bad-call')
        try:
            got = harness.contents(self.c, self.is_mapping)
        except Exception as e:
            self.violation('contents-raised', op=op, args=brief(args),
                           detail='%s: %s' % (type(e).__name__, e))
            return False
        want = self.m.contents()
        if ro[0] == 'exc':
            rec.ev('bad-call-raised')
            if not eq(got, want):
                self.violation('failed-call-changed-contents', op=op,
                               args=brief(args), outcome=ro[1],
                               observed=brief(got, 300),
                               expected=brief(want, 300))
                return False
        elif not eq(got, want):
            # accepted after all (another property's business): follow it
            self._set_model(got)
            want = got
        if self.structure:
            errs, w = structural_checks(self.c, self.is_mapping,
                                        self.use_check_module,
                                        sizes=self.check_sizes)
            rec.ev('structure-checks')
            if errs:
                self.violation('structure', op=op, args=brief(args),
                               outcome=ro[1] if ro[0] == 'exc' else 'ok',
                               checker=errs[0][0], errors=errs[:4])
                return False
            self.walk = w
        if (bool(self.c) != bool(want)) or len(self.c) != len(want):
            self.violation('contents-mismatch', op=op, args=brief(args),
                           outcome=ro[1] if ro[0] == 'exc' else 'ok',
                           len=len(self.c), bool=bool(self.c),
                           expected=brief(want, 200), observed=brief(got, 200))
            return False
        return True

    # -- what a call returned belongs to the caller -----------------------
    def alias_probe(self):
        """Bucket/Set: the lists returned by keys()/values()/items() are the
        caller's.  They must not change when the container changes later,
        and scrambling them must not change the container."""
        if self.is_tree:
            return True
        rng, rec = self.rng, self.rec
        held = {'keys': self.c.keys()}
        if self.is_mapping:
            held['values'] = self.c.values()
            held['items'] = self.c.items()
        snap = {k: list(v) for k, v in held.items()}
        if not all(isinstance(v, list) for v in held.values()):
            return True
        # a few mutating calls on the container
        for _ in range(rng.randint(1, 3)):
            present = self.m.sorted_keys()
            for _try in range(5):
                op, args = self.g.next_op(None, present)
                if op in MUTATING_OPS:
                    break
            else:
                continue
            if not self.step(op, args):
                return False
        rec.evaluations += 1
        rec.ev('alias-probes')
        for k in held:
            if not eq(held[k], snap[k]):
                self.violation('returned-list-changed-with-the-container',
                               method=k, observed=brief(held[k], 200),
                               expected=brief(snap[k], 200))
                return False
        # the caller scrambles its lists
        for v in held.values():
            v.reverse()
            if v and rng.random() < .5:
                del v[0]
        try:
            got = harness.contents(self.c, self.is_mapping)
            found = all(k_ in self.c for k_ in self.m.sorted_keys())
        except Exception as e:
            self.violation('contents-raised', op='alias-probe',
                           detail='%s: %s' % (type(e).__name__, e))
            return False
        if not eq(got, self.m.contents()) or not found:
            self.violation('container-changed-through-a-returned-list',
                           observed=brief(got, 300),
                           expected=brief(self.m.contents(), 300),
                           lookups_ok=found)
            return False
        return True

    def run(self, n, p_bad=0.0, p_alias=0.0):
        for _ in range(n):
            if p_alias and not self.is_tree and \
                    self.rng.random() < p_alias:
                if not self.alias_probe():
                    return False
                continue
            if p_bad and self.rng.random() < p_bad:
                if not self.bad_step():
                    return False
                continue
            if not self.step():
                return False
        return True
