"""Tree surgeon (DESIGN C18, also used by C02/C09): turns a tree into a
pure-data description, transforms it, and rebuilds a real tree bottom-up
through cls.__new__ + __setstate__ (linking the leaf chain explicitly)."""
from .families import sort_keys
from .model import kle, klt


class Leaf:
    def __init__(self, keys, values=None):
        self.keys = list(keys)
        self.values = list(values) if values is not None else None

    def copy(self):
        return Leaf(self.keys, self.values)

    def all_leaves(self):
        return [self]

    def min_key(self):
        return self.keys[0]

    def max_key(self):
        return self.keys[-1]


class Node:
    def __init__(self, children, seps):
        self.children = list(children)
        self.seps = list(seps)      # len(children) - 1

    def copy(self):
        return Node([c.copy() for c in self.children], self.seps)

    def all_leaves(self):
        out = []
        for c in self.children:
            out.extend(c.all_leaves())
        return out

    def min_key(self):
        return self.children[0].min_key()

    def max_key(self):
        return self.children[-1].max_key()

    def all_nodes(self):
        out = [self]
        for c in self.children:
            if isinstance(c, Node):
                out.extend(c.all_nodes())
        return out


def describe(tree, is_mapping):
    """-> Leaf | Node | None (empty tree)"""
    cls = type(tree)

    def leaf(st):
        flat = st[0]
        if is_mapping:
            return Leaf(flat[0::2], flat[1::2])
        return Leaf(flat)

    def node(o):
        st = o.__getstate__()
        if st is None:
            return None
        if len(st) == 1:
            return Node([leaf(st[0][0])], [])
        data = st[0]
        kids = []
        for c in data[0::2]:
            if type(c) is cls:
                kids.append(node(c))
            else:
                kids.append(leaf(c.__getstate__()))
        return Node(kids, list(data[1::2]))
    return node(tree)


def build(desc, fam, kind, impl, chain=None, firstbucket='auto',
          link_override=None):
    """Rebuild a real tree of class fam.cls(kind, impl) from `desc`.

    link_override: {leaf_index: next_leaf_index | None | 'self'} to corrupt
    the chain; firstbucket: 'auto' or a leaf index."""
    is_mapping = kind == 'BTree'
    tcls = fam.cls(kind, impl)
    bcls = fam.cls('Bucket' if is_mapping else 'Set', impl)
    if desc is None:
        return tcls()
    leaves = desc.all_leaves()
    objs = [None] * len(leaves)
    # right to left so that each leaf can name its successor
    order = list(range(len(leaves) - 1, -1, -1))

    def flat_of(lf):
        if is_mapping:
            f = []
            vals = lf.values if lf.values is not None else [0] * len(lf.keys)
            for k, v in zip(lf.keys, vals):
                f += [k, v]
            return tuple(f)
        return tuple(lf.keys)
    for i in order:
        b = bcls.__new__(bcls)
        nxt = objs[i + 1] if i + 1 < len(leaves) else None
        st = (flat_of(leaves[i]),) if nxt is None else (flat_of(leaves[i]),
                                                        nxt)
        b.__setstate__(st)
        objs[i] = b
    if link_override:
        for i, tgt in link_override.items():
            if tgt == 'self':
                objs[i]._next = objs[i]
            elif tgt is None:
                objs[i]._next = None
            else:
                objs[i]._next = objs[tgt]
    index = {id(l): i for i, l in enumerate(leaves)}

    def first_leaf_index(d):
        while isinstance(d, Node):
            d = d.children[0]
        return index[id(d)]

    def mk(d, is_root):
        if isinstance(d, Leaf):
            return objs[index[id(d)]]
        kids = [mk(c, False) for c in d.children]
        t = tcls.__new__(tcls)
        data = [kids[0]]
        for s, k in zip(d.seps, kids[1:]):
            data += [s, k]
        fb = objs[first_leaf_index(d)]
        if is_root and firstbucket != 'auto':
            fb = objs[firstbucket]
        t.__setstate__((tuple(data), fb))
        return t
    if isinstance(desc, Leaf):
        desc = Node([desc], [])
    return mk(desc, True)


def loosen_separators(desc, universe, rng, p=0.7):
    """A VALID variant of `desc` whose separators are only lower bounds of
    their right subtree (not the subtree's smallest key): any key k with
    max(left) < k <= min(right) is a legal separator.  -> (desc, n_changed)"""
    d = desc.copy()
    n = 0
    if not isinstance(d, Node):
        return d, 0
    su = sort_keys([k for k in universe if k is not None])
    for nd in d.all_nodes():
        for i in range(len(nd.seps)):
            lo = nd.children[i].max_key()
            hi = nd.children[i + 1].min_key()
            cands = [k for k in su if klt(lo, k) and klt(k, hi)]
            if cands and rng.random() < p:
                nd.seps[i] = rng.choice(cands)
                n += 1
    return d, n
