"""Re-entrancy from finalizers: key and value objects whose LAST reference is
the container's, and whose finalizer (`__del__`, or a weakref callback) looks
at - or changes - that same container.  The finalizer runs in the middle of
whatever operation released the object (clear, delete, overwrite, pop,
in-place set operators, __setstate__ on a live object, eviction,
destruction), i.e. while the C code is half-way through its own bookkeeping.

A weakref callback differs from `__del__` in one important way: the dying
object can no longer be resurrected, so a container that still lists the
object while the callback runs hands out a reference to freed memory.

Oracle: the process survives (no signal, no C assertion, no sanitizer
report), the finalizer never sees SystemError, and afterwards the container
is sound and - when the finalizers only read - holds exactly what the
operation implies.  What a finalizer *observes* mid-operation is not
specified and not judged."""
from .harness import safe_repr as _srepr  # noqa: E402
import gc
import weakref

from . import families, hist, walker
from .harness import brief, contents

STATE = {'c': None, 'acts': (), 'log': [], 'errs': [], 'depth': 0,
         'rng': None, 'fired': 0, 'is_mapping': True, 'probe': None}
_KEEP = []          # weakrefs with callbacks must stay alive to fire


def _poke(n):
    st = STATE
    c = st['c']
    if c is None or st['depth'] > 2:
        return
    st['depth'] += 1
    st['fired'] += 1
    try:
        for a in st['acts']:
            try:
                if a == 'len':
                    len(c)
                elif a == 'bool':
                    bool(c)
                elif a == 'in':
                    st['probe'](n) in c
                elif a == 'get':
                    if st['is_mapping']:
                        c.get(st['probe'](n))
                    else:
                        c.has_key(st['probe'](n))
                elif a == 'list':
                    if st['is_mapping']:
                        list(c.items())
                    else:
                        list(c.keys())
                elif a == 'iter':
                    for _ in c:
                        pass
                elif a == 'minmax':
                    c.minKey()
                    c.maxKey()
                elif a == 'index':
                    ks = c.keys()
                    ks[0]
                    ks[-1]
                elif a == 'range':
                    list(c.keys(st['probe'](n - 1), st['probe'](n + 1)))
                elif a == 'getstate':
                    c.__getstate__()
                # --- finalizers that change the container ---------------
                elif a == 'discard':
                    k = st['probe'](n + 1)
                    if st['is_mapping']:
                        c.pop(k, None)
                    else:
                        try:
                            c.remove(k)
                        except KeyError:
                            pass
                elif a == 'insert':
                    k = st['probe'](n + 100)
                    if st['is_mapping']:
                        c[k] = 0
                    else:
                        c.add(k)
                elif a == 'clear':
                    c.clear()
            except (KeyError, ValueError, IndexError, RuntimeError,
                    TypeError):
                pass
            except BaseException as e:      # SystemError, AssertionError...
                st['errs'].append('%s in finalizer action %s: %s' % (
                    type(e).__name__, a, str(e)[:200]))
    finally:
        st['depth'] -= 1


class PV:
    """A value that pokes its container when it dies."""
    __slots__ = ('n', 'live', '__weakref__')

    def __init__(self, n, live=True):
        self.n = n
        self.live = live

    def __del__(self):
        if self.live:
            self.live = False
            _poke(self.n)

    def __eq__(self, o):
        return isinstance(o, PV) and o.n == self.n

    def __lt__(self, o):
        return self.n < o.n

    def __hash__(self):
        return hash(self.n)

    def __repr__(self):
        return 'PV(%d)' % self.n


class PK:
    """A totally ordered key that pokes its container when it dies."""
    __slots__ = ('n', 'live', '__weakref__')

    def __init__(self, n, live=True):
        self.n = n
        self.live = live

    def __del__(self):
        if self.live:
            self.live = False
            _poke(self.n)

    def _n(self, o):
        if o is None:
            return -10 ** 9
        return o.n

    def __lt__(self, o):
        return self.n < self._n(o)

    def __le__(self, o):
        return self.n <= self._n(o)

    def __gt__(self, o):
        return self.n > self._n(o)

    def __ge__(self, o):
        return self.n >= self._n(o)

    def __eq__(self, o):
        return isinstance(o, PK) and self.n == o.n

    def __ne__(self, o):
        return not self.__eq__(o)

    def __hash__(self):
        return hash(self.n)

    def __repr__(self):
        return 'PK(%d)' % self.n


def _mk(cls, n, how):
    """A poking object: by __del__ ('del') or by weakref callback ('wr')."""
    if how == 'del':
        return cls(n)
    o = cls(n, live=False)
    _KEEP.append(weakref.ref(o, lambda _r, n=n: _poke(n)))
    return o


READS = ['len', 'bool', 'in', 'get', 'list', 'iter', 'minmax', 'index',
         'range', 'getstate']
WRITES = ['discard', 'insert', 'clear']

# A finalizer that INSERTS INTO or CLEARS the container while __setstate__
# replaces the contents of a live Bucket / Set, or while an aborted
# transaction's nodes are being invalidated, pulls the vectors from under
# that operation (recorded finding F55; everything else was repaired, F56).  The ordinary cases
# never draw these combinations; a few are run one by one in sacrificial
# processes so that the finding is reported only while it is still there.
UNSAFE_MUTATING = {
    True: frozenset(['invalidate']),
    False: frozenset(['setstate']),
}
SACRIFICIAL = [
    ('OO', 'Bucket', dict(trigger='setstate', how='del', acts=['clear'],
                          n=9)),
    ('OO', 'Set', dict(trigger='setstate', how='wr', acts=['clear'], n=9)),
    ('OO', 'BTree', dict(trigger='invalidate', how='del', acts=['insert'],
                         n=9)),
]

TRIGGERS_MAP = ['clear', 'delitem', 'pop', 'popitem', 'overwrite', 'update',
                'setstate', 'evict', 'invalidate', 'destroy', 'delrange']
TRIGGERS_SET = ['clear', 'remove', 'spop', 'isub', 'iand', 'ixor',
                'setstate', 'evict', 'invalidate', 'destroy', 'delrange']


def run_case(fam, kind, rng, rec, ci, impl='c', force=None):
    from . import minidb
    is_mapping = kind in families.MAPPING_KINDS
    is_tree = kind in families.TREE_KINDS
    key_obj = fam.kc == 'O'
    val_obj = is_mapping and fam.vc == 'O'
    if not (key_obj or val_obj):
        return
    cls = fam.cls(kind, impl)
    sizes = None
    if is_tree:
        sizes = [(2, 2), (2, 3), (3, 3), (4, 2)][ci % 4]
        cls.max_leaf_size, cls.max_internal_size = sizes
    how = 'del' if ci % 2 == 0 else 'wr'
    mutating = rng.random() < 0.3
    acts = tuple(rng.sample(READS, rng.randint(1, 3)))
    if not is_tree:
        acts = tuple(a for a in acts if a != 'index') or ('len',)
    trigger = rng.choice(TRIGGERS_MAP if is_mapping else TRIGGERS_SET)
    if mutating:
        if trigger in UNSAFE_MUTATING[is_tree]:
            acts = acts + ('discard',)
        else:
            acts = acts + (rng.choice(WRITES),)
    n = rng.choice([1, 2, 3, 5, 9, 14, 22])
    ns = rng.sample(range(0, 60, 2), n)
    if key_obj:
        def probe(i):
            return PK(i, live=False)
    else:
        lo = 0

        def probe(i):
            return max(lo, i)
    if force:
        how = force.get('how', how)
        acts = tuple(force.get('acts', acts))
        mutating = any(a in WRITES for a in acts)
        trigger = force.get('trigger', trigger)
        if 'n' in force:
            ns = list(range(0, 2 * force['n'], 2))
    desc = dict(family=fam.name, kind=kind, sizes=sizes, finalizer=how,
                actions=acts, trigger=trigger, keys=sorted(ns))
    rec.journal(_srepr(desc))
    STATE.update(c=None, acts=acts, errs=[], fired=0, rng=rng,
                 is_mapping=is_mapping, probe=probe, depth=0)
    c = cls()
    model = {}
    for i in ns:
        k = _mk(PK, i, how) if key_obj else i
        if is_mapping:
            v = _mk(PV, i, how) if val_obj else (i % 7)
            c[k] = v
            model[i] = i if val_obj else (i % 7)
            del v
        else:
            c.add(k)
            model[i] = None
        del k
    conn = None
    if trigger in ('evict', 'invalidate') or rng.random() < .25:
        conn = minidb.Connection(minidb.Storage(), impl)
        conn.log_events = False
        try:
            conn.add(c)
            conn.commit()
        except Exception:
            conn = None
    if conn is None and trigger in ('evict', 'invalidate'):
        trigger = 'clear'
        desc['trigger'] = trigger
    victim = rng.choice(sorted(ns))
    gc.collect()
    STATE['c'] = c
    fired0 = STATE['fired']
    exc = None
    try:
        if trigger == 'clear':
            c.clear()
            model.clear()
        elif trigger in ('delitem', 'remove'):
            if is_mapping:
                del c[probe(victim)]
            else:
                c.remove(probe(victim))
            model.pop(victim)
        elif trigger == 'pop':
            c.pop(probe(victim))
            model.pop(victim)
        elif trigger in ('popitem', 'spop'):
            (c.popitem if is_mapping else c.pop)()
            model.pop(min(model))
        elif trigger == 'overwrite':
            c[probe(victim)] = PV(victim, live=False) if val_obj else 3
            model[victim] = victim if val_obj else 3
        elif trigger == 'update':
            c.update([(probe(i), (PV(i, live=False) if val_obj else 4))
                      for i in sorted(model)[::2]])
            for i in sorted(model)[::2]:
                model[i] = i if val_obj else 4
        elif trigger == 'delrange':
            # everything, one by one, smallest first (every unlink path)
            for i in sorted(model):
                if is_mapping:
                    del c[probe(i)]
                else:
                    c.remove(probe(i))
            model.clear()
        elif trigger in ('isub', 'iand', 'ixor'):
            other = [probe(i) for i in sorted(model)[::2]]
            if trigger == 'isub':
                c -= other
                for i in sorted(model)[::2]:
                    model.pop(i)
            elif trigger == 'iand':
                c &= other
                for i in [j for j in model if j not in sorted(model)[::2]]:
                    model.pop(i)
            else:
                c ^= other
                for i in sorted(model)[::2]:
                    model.pop(i)
            del other
        elif trigger == 'setstate':
            # a live, populated node is given another state
            fresh = cls()
            keep = sorted(model)[:1]
            for i in keep:
                if is_mapping:
                    fresh[probe(i)] = PV(i, live=False) if val_obj else 5
                else:
                    fresh.add(probe(i))
            st_ = fresh.__getstate__()
            c.__setstate__(st_)
            model = {i: (i if val_obj else 5) if is_mapping else None
                     for i in keep}
            del fresh, st_
        elif trigger == 'evict':
            conn.cache.minimize()
            c._p_deactivate()
        elif trigger == 'invalidate':
            # uncommitted change thrown away: contents as committed
            if is_mapping:
                c[probe(victim)] = PV(victim, live=False) if val_obj else 6
            else:
                c.remove(probe(victim))
            conn.abort()
        elif trigger == 'destroy':
            STATE['c'] = c      # (the finalizers keep it alive a bit longer)
            model = None
    except Exception as e:
        exc = e
    if trigger == 'destroy':
        del c
        STATE['c'] = None
        gc.collect()
        rec.evaluations += 1
        rec.ev('reentry:' + trigger)
        rec.seen('reentry', kind, how, trigger, mutating)
        if STATE['errs']:
            rec.violation('finalizer-saw-internal-error', detail=STATE[
                'errs'][:3], **desc)
        return
    STATE['c'] = None       # finalizers from here on are the harness's own
    rec.evaluations += 1
    rec.ev('reentry:' + trigger)
    rec.ev('reentry:finalizer-' + how)
    if STATE['fired'] > fired0:
        rec.ev('reentry:finalizer-ran-inside-operation')
        rec.ev('reentry:fired:' + trigger)
    if mutating:
        rec.ev('reentry:mutating-finalizer')
    rec.seen('reentry', kind, how, trigger, mutating, acts[-1],
             min(len(ns), 6))
    if STATE['errs']:
        rec.violation('finalizer-saw-internal-error',
                      detail=STATE['errs'][:3], **desc)
        return
    if exc is not None and not (mutating and isinstance(
            exc, (KeyError, ValueError, IndexError, RuntimeError))):
        rec.violation('operation-raised-because-of-finalizer',
                      detail='%s: %s' % (type(exc).__name__, exc), **desc)
        return
    # ---- afterwards: sound, and (read-only finalizers) the right contents
    try:
        got = contents(c, is_mapping)
        ln = len(c)
    except Exception as e:
        rec.violation('contents-raised-after-reentrant-finalizer',
                      detail='%s: %s' % (type(e).__name__, e), **desc)
        return
    gk = [(x[0] if is_mapping else x) for x in got]
    gn = [(k.n if key_obj else k) for k in gk]
    if gn != sorted(set(gn)) or ln != len(got):
        rec.violation('container-unsound-after-reentrant-finalizer',
                      observed=brief(gn, 300), len=ln, **desc)
        return
    if is_tree:
        errs, _w = hist.structural_checks(c, is_mapping, sizes=False)
        if errs:
            rec.violation('container-unsound-after-reentrant-finalizer',
                          errors=errs[:3], **desc)
            return
    if not mutating and exc is None:
        want = sorted(model)
        if gn != want:
            rec.violation('contents-wrong-after-reentrant-finalizer',
                          observed=brief(gn, 300), expected=brief(want, 300),
                          **desc)
            return
        if val_obj:
            gv = [x[1].n for x in got]
            if gv != [model[i] for i in want]:
                rec.violation('contents-wrong-after-reentrant-finalizer',
                              observed=brief(gv, 300), what='values', **desc)
                return
    # keep using it a little
    try:
        for i in (1, 3, 61):
            if is_mapping:
                c[probe(i)] = PV(i, live=False) if val_obj else 1
                c.pop(probe(i))
            else:
                c.add(probe(i))
                c.remove(probe(i))
        if is_tree:
            c._check()
    except Exception as e:
        rec.violation('container-unusable-after-reentrant-finalizer',
                      detail='%s: %s' % (type(e).__name__, e), **desc)
    del c
    gc.collect()
    del _KEEP[:]
