"""Content-addressed builds of the BTrees C extensions from the repository's
*current working tree* (DESIGN 2.1).

    mon   gcc   -O1 -g  asserts on, -DBTREES_VERIF=1
    asan  clang -O1 -g  -fsanitize=address,undefined, asserts on, hook on
    plain gcc   -O2 -DNDEBUG, hook off

The build directory contains a complete importable ``BTrees`` package (the
.py files are copied next to the freshly built .so files), so workers use
it with PYTHONPATH=<dir> and never touch /repo/src at run time.
"""
import fcntl
import hashlib
import os
import shutil
import subprocess
import sys
import sysconfig
import time
from concurrent.futures import ThreadPoolExecutor

VERIF = os.path.dirname(os.path.dirname(os.path.abspath(__file__)))
CACHE = os.path.join(VERIF, '.cache')
PY = '/venv/bin/python'

FAMILIES = ("OO", "IO", "OI", "II", "IF", "fs", "LO", "OL", "LL", "LF",
            "UO", "OU", "UU", "UF", "QO", "OQ", "QQ", "QF", "IU", "UI",
            "LQ", "QL")

VARIANTS = {
    'mon': dict(cc='gcc', flags=['-O1', '-g', '-UNDEBUG', '-DBTREES_VERIF=1',
                                 '-fno-strict-aliasing', '-w']),
    'asan': dict(cc='clang', flags=[
        '-O1', '-g', '-fno-omit-frame-pointer',
        '-fsanitize=address,undefined', '-fno-sanitize=nonnull-attribute',
        '-fno-sanitize-recover=undefined', '-shared-libasan', '-UNDEBUG',
        '-DBTREES_VERIF=1', '-fno-strict-aliasing', '-w']),
    # the sanitizers on the code AS SHIPPED (C assert() compiled out, as
    # setup.py builds it): for workloads that look at a container from
    # inside one of its own operations (finalizers), where an assert() that
    # states an invariant of the container AT REST may legitimately not hold
    'asanr': dict(cc='clang', flags=[
        '-O1', '-g', '-fno-omit-frame-pointer',
        '-fsanitize=address,undefined', '-fno-sanitize=nonnull-attribute',
        '-fno-sanitize-recover=undefined', '-shared-libasan', '-DNDEBUG',
        '-DBTREES_VERIF=1', '-fno-strict-aliasing', '-w']),
    # line/branch coverage of the C templates under the checks' workloads
    # (tools/cov_report.py): never used for a verdict
    'cov': dict(cc='gcc', flags=['-O0', '-g', '--coverage', '-UNDEBUG',
                                 '-DBTREES_VERIF=1', '-fno-strict-aliasing',
                                 '-w']),
    'plain': dict(cc='gcc', flags=['-O2', '-DNDEBUG', '-fno-strict-aliasing',
                                   '-w']),
}


def repo_root():
    return os.environ.get('VMON_REPO', '/repo')


def _inputs(root):
    src = os.path.join(root, 'src', 'BTrees')
    files = []
    for fn in sorted(os.listdir(src)):
        if fn.endswith(('.c', '.h', '.py')):
            files.append(os.path.join(src, fn))
    inc = os.path.join(root, 'include', 'persistent')
    for d, _, fns in sorted(os.walk(inc)):
        for fn in sorted(fns):
            files.append(os.path.join(d, fn))
    return files


def tree_hash(root, variant):
    h = hashlib.sha256()
    h.update(repr(VARIANTS[variant]).encode())
    h.update(sys.version.encode())
    for f in _inputs(root):
        h.update(os.path.relpath(f, root).encode())
        with open(f, 'rb') as fh:
            h.update(fh.read())
    return h.hexdigest()[:16]


def py_include():
    out = subprocess.run(
        [PY, '-c', 'import sysconfig;print(sysconfig.get_paths()["include"]);'
         'print(sysconfig.get_config_var("EXT_SUFFIX"))'],
        capture_output=True, text=True, check=True).stdout.split()
    return out[0], out[1]


def asan_runtime():
    return subprocess.run(
        ['clang', '-print-file-name=libclang_rt.asan-x86_64.so'],
        capture_output=True, text=True, check=True).stdout.strip()


def _compile(args):
    cmd, fam = args
    p = subprocess.run(cmd, capture_output=True, text=True)
    return fam, p.returncode, p.stderr[-4000:]


def _prune(keep):
    try:
        ents = [os.path.join(CACHE, e) for e in os.listdir(CACHE)
                if os.path.isdir(os.path.join(CACHE, e))]
    except FileNotFoundError:
        return
    ents.sort(key=lambda p: os.path.getmtime(p))
    now = time.time()
    while len(ents) > 24:
        victim = ents.pop(0)
        if victim == keep:
            continue
        try:
            if now - os.path.getmtime(victim) < 1800:
                # touched within the last half hour: another check running
                # at the same time may be using it
                break
        except OSError:
            continue
        shutil.rmtree(victim, ignore_errors=True)


def c_hash(root, variant):
    """Hash of everything the compiled modules depend on (no .py files)."""
    h = hashlib.sha256()
    h.update(repr(VARIANTS[variant]).encode())
    h.update(sys.version.encode())
    for f in _inputs(root):
        if f.endswith('.py'):
            continue
        h.update(os.path.relpath(f, root).encode())
        with open(f, 'rb') as fh:
            h.update(fh.read())
    return h.hexdigest()[:16]


def _build_c(variant, root, quiet):
    """Stage 1: the 22 compiled modules, keyed by the C sources only (a
    change to a .py file does not recompile anything)."""
    ch = c_hash(root, variant)
    out = os.path.join(CACHE, '%s-%s-c' % (ch, variant))
    okflag = os.path.join(out, '.ok')
    if os.path.exists(okflag):
        os.utime(out, None)
        return out
    lock = open(os.path.join(CACHE, '.lock-%s-%s-c' % (ch, variant)), 'w')
    fcntl.flock(lock, fcntl.LOCK_EX)
    try:
        if os.path.exists(okflag):
            return out
        t0 = time.time()
        if os.path.exists(out):
            shutil.rmtree(out)
        pkg = os.path.join(out, 'BTrees')
        os.makedirs(pkg)
        src = os.path.join(root, 'src', 'BTrees')
        inc, suffix = py_include()
        v = VARIANTS[variant]
        jobs = []
        for fam in FAMILIES:
            cmd = [v['cc'], '-shared', '-fPIC'] + v['flags'] + [
                '-I' + inc, '-I' + os.path.join(root, 'include', 'persistent'),
                '-I' + src]
            if fam[0] != 'O':
                cmd.append('-DEXCLUDE_INTSET_SUPPORT')
            cmd += [os.path.join(src, '_%sBTree.c' % fam), '-o',
                    os.path.join(pkg, '_%sBTree%s' % (fam, suffix))]
            jobs.append((cmd, fam))
        with ThreadPoolExecutor(16) as ex:
            res = list(ex.map(_compile, jobs))
        bad = [(f, e) for f, rc, e in res if rc]
        if bad:
            shutil.rmtree(out, ignore_errors=True)
            raise RuntimeError('build failed (%s): %s' % (
                variant, '\n'.join('%s: %s' % b for b in bad)))
        with open(okflag, 'w') as fh:
            fh.write('%s %s %.1fs\n' % (variant, ch, time.time() - t0))
        if not quiet:
            print('built %s in %.1fs -> %s' % (variant, time.time() - t0, out))
        return out
    finally:
        fcntl.flock(lock, fcntl.LOCK_UN)
        lock.close()


def get_build(variant='mon', root=None, quiet=True):
    """Return the directory to put on PYTHONPATH.  Builds when missing.

    Two stages: the compiled modules (keyed by the C sources) and, on top,
    a complete importable package keyed by everything: the .py files copied
    next to links to the compiled modules."""
    root = root or repo_root()
    os.makedirs(CACHE, exist_ok=True)
    h = tree_hash(root, variant)
    out = os.path.join(CACHE, '%s-%s' % (h, variant))
    okflag = os.path.join(out, '.ok')
    if os.path.exists(okflag):
        os.utime(out, None)
        try:
            os.utime(os.path.realpath(os.path.join(out, '.cstage')), None)
        except OSError:
            pass
        return out
    cdir = _build_c(variant, root, quiet)
    lock = open(os.path.join(CACHE, '.lock-%s-%s' % (h, variant)), 'w')
    fcntl.flock(lock, fcntl.LOCK_EX)
    try:
        if os.path.exists(okflag):
            return out
        if os.path.exists(out):
            shutil.rmtree(out)
        pkg = os.path.join(out, 'BTrees')
        os.makedirs(pkg)
        src = os.path.join(root, 'src', 'BTrees')
        for fn in os.listdir(src):
            if fn.endswith('.py'):
                shutil.copy(os.path.join(src, fn), os.path.join(pkg, fn))
        cpkg = os.path.join(cdir, 'BTrees')
        for fn in os.listdir(cpkg):
            # hard links: the coverage build writes its .gcda next to the
            # module, and a pruned first stage must not break this one
            try:
                os.link(os.path.join(cpkg, fn), os.path.join(pkg, fn))
            except OSError:
                shutil.copy(os.path.join(cpkg, fn), os.path.join(pkg, fn))
        os.symlink(cdir, os.path.join(out, '.cstage'))
        with open(okflag, 'w') as fh:
            fh.write('%s %s\n' % (variant, h))
        _prune(out)
        return out
    finally:
        fcntl.flock(lock, fcntl.LOCK_UN)
        lock.close()


def worker_env(variant='mon', root=None, logdir=None):
    """Environment for a worker process importing the given build."""
    force = os.environ.get('VMON_FORCE_VARIANT')
    if force:
        variant = force
    valgrind = variant == 'vg'
    if valgrind:
        # valgrind memcheck runs the ordinary monitor build (gcc -O1 -g)
        variant = 'mon'
    bdir = get_build(variant, root)
    env = dict(os.environ)
    env['PYTHONPATH'] = bdir + os.pathsep + VERIF
    env['PURE_PYTHON'] = '0'
    env['PYTHONHASHSEED'] = '0'
    env['VMON_BUILD_DIR'] = bdir
    env['VMON_VARIANT'] = 'vg' if valgrind else variant
    if valgrind:
        env['PYTHONMALLOC'] = 'malloc'
    env['PYTHONFAULTHANDLER'] = '1'
    env.pop('PYTHONSTARTUP', None)
    if variant in ('asan', 'asanr'):
        env['LD_PRELOAD'] = asan_runtime()
        lp = ''
        if logdir:
            lp = ':log_path=' + os.path.join(logdir, 'asan')
        env['ASAN_OPTIONS'] = ('detect_leaks=0:halt_on_error=1:'
                               'abort_on_error=1:allocator_may_return_null=1'
                               + lp)
        env['UBSAN_OPTIONS'] = 'print_stacktrace=1:halt_on_error=1' + lp
        env['PYTHONMALLOC'] = 'malloc'
    return env


def assert_build_loaded():
    """Called inside a worker: every C module must come from the build."""
    bdir = os.environ['VMON_BUILD_DIR']
    import BTrees
    assert os.path.dirname(BTrees.__file__) == os.path.join(bdir, 'BTrees'), \
        BTrees.__file__
    import importlib
    for fam in FAMILIES:
        m = importlib.import_module('BTrees._%sBTree' % fam)
        assert m.__file__.startswith(bdir), m.__file__
        pm = importlib.import_module('BTrees.%sBTree' % fam)
        assert getattr(pm, fam + 'BTree') is getattr(m, fam + 'BTree')
        assert getattr(pm, fam + 'BTreePy') is not getattr(m, fam + 'BTree')
    return bdir


if __name__ == '__main__':
    for v in sys.argv[1:] or ['mon', 'asan']:
        print(get_build(v, quiet=False))
