"""Shape corpus (DESIGN 3.4): containers reached by histories, bucketed by
shape class, so that rare shapes are kept and common ones sampled."""
from . import families, gen, hist, walker
from .runner import Recorder


class _NullRec:
    evaluations = 0

    def ev(self, *a, **k):
        pass

    def seen(self, *a, **k):
        pass

    def journal(self, *a, **k):
        pass

    def sample(self, *a, **k):
        pass

    def violation(self, *a, **k):
        pass


def grow_container(fam, kind, impl, rng, sizes=None, via_subclass=False,
                   steps=None, thin=True, universe=None, values=None,
                   exclude=()):
    """Run a mutation-only history and return the LockStep (container +
    model, kept in step structurally: judge=False)."""
    ls = hist.LockStep(fam, kind, impl, rng, _NullRec(), sizes=sizes,
                       via_subclass=via_subclass, structure=False,
                       adversarial=0.4, read_ops=False, judge=False)
    ls.g.exclude = exclude
    if universe is not None:
        ls.g.universe = universe
    if values is not None:
        ls.g.values = values
    n = steps if steps is not None else rng.randint(8, 90)
    ls.g.phase_len = rng.randint(5, 50)
    for _ in range(n):
        ls.step()
    if thin and ls.is_tree and rng.random() < .5:
        # thin the tree by deletions: stale separators, one-key leaves,
        # single-child roots
        ls.g.phase = 'shrink'
        ls.g.phase_len = 10 ** 6
        target = rng.randint(1, max(1, len(ls.m) // 2 + 1))
        guard = 0
        while len(ls.m) > target and guard < 300:
            ls.step()
            guard += 1
    return ls


def sizes_for(i, rng):
    return gen.NODE_SIZES[i % len(gen.NODE_SIZES)]
