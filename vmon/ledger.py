"""Reference-count ledger (DESIGN 3.7).

Tracked keys and values live in pools and are addressed by index, so that no
harness frame holds a stray reference.  The ledger compares the CHANGE of
sys.getrefcount of every tracked object across an operation with the CHANGE
of the number of times the object occurs in the container's node states
(leaf key slots, leaf value slots, separators)."""
import gc
import sys
from collections import Counter


class TV:
    """A tracked value object (unique identity, equality by payload)."""
    __slots__ = ('v',)

    def __init__(self, v):
        self.v = v

    def __eq__(self, o):
        return isinstance(o, TV) and self.v == o.v

    def __ne__(self, o):
        return not self.__eq__(o)

    def __hash__(self):
        return hash(self.v)

    # ordered by payload (byValue() sorts (value, key) pairs)
    def __lt__(self, o):
        return self.v < o.v

    def __le__(self, o):
        return self.v <= o.v

    def __gt__(self, o):
        return self.v > o.v

    def __ge__(self, o):
        return self.v >= o.v

    def __reduce__(self):
        return (TV, (self.v,))

    def __repr__(self):
        return 'TV(%r)' % (self.v,)


def node_occurrences(nodes, tree_type):
    """Occurrences in the OWN slots of each given node object (leaf key and
    value slots, separators); ghosts hold nothing."""
    cnt = Counter()
    seen = set()
    for o in nodes:
        if id(o) in seen:
            continue
        seen.add(id(o))
        if getattr(o, '_p_state', 0) == -1:
            continue            # a ghost owns no keys or values
        st = o.__getstate__()
        if st is None:
            continue
        if type(o) is tree_type:
            # (a node in the embedded 1-tuple form owns nothing itself: the
            # keys belong to its bucket object, reached through _firstbucket)
            if len(st) == 2:
                for x in st[0][1::2]:
                    cnt[id(x)] += 1
        else:
            for x in st[0]:
                cnt[id(x)] += 1
    return cnt


def reachable_nodes(c, is_tree):
    out = [c]
    if not is_tree:
        return out
    st = c.__getstate__()
    if st is None or len(st) == 1:
        return out
    for ch in st[0][0::2]:
        if type(ch) is type(c):
            out.extend(reachable_nodes(ch, True))
        else:
            out.append(ch)
    return out


def occurrences(c, is_mapping, is_tree):
    """Counter(id -> times the object is referenced from node states)."""
    cnt = Counter()

    def leaf(st):
        flat = st[0]
        for o in flat:
            cnt[id(o)] += 1

    def node(o):
        st = o.__getstate__()
        if st is None:
            return
        if len(st) == 1:
            leaf(st[0][0])
            return
        data = st[0]
        for s in data[1::2]:
            cnt[id(s)] += 1
        for ch in data[0::2]:
            if type(ch) is type(o):
                node(ch)
            else:
                leaf(ch.__getstate__())
    if is_tree:
        node(c)
    else:
        leaf(c.__getstate__())
    return cnt


class Ledger:
    def __init__(self, pools):
        """pools: list of lists of tracked objects (kept alive by the
        pools themselves)."""
        self.pools = pools

    def _objs(self):
        for p in self.pools:
            for i in range(len(p)):
                yield p, i

    def snapshot(self, containers, extra_nodes=None, tree_type=None):
        """containers: list of (container, is_mapping, is_tree).
        extra_nodes: further live node objects (e.g. everything a data
        manager's cache still holds: unlinked buckets stay alive there)."""
        gc.collect()
        occ = Counter()
        if extra_nodes is not None:
            nodes = list(extra_nodes)
            for c, m, t in containers:
                nodes.extend(reachable_nodes(c, t))
            # close under child and next pointers: an unlinked bucket that is
            # still cached keeps its (possibly never stored) successors alive
            seen = set(id(o) for o in nodes)
            todo = list(nodes)
            o = more = st = x = nx = None
            while todo:
                o = todo.pop()
                if getattr(o, '_p_state', 0) == -1:
                    continue
                more = []
                if type(o) is tree_type:
                    st = o.__getstate__()
                    if st is not None and len(st) == 2:
                        more = list(st[0][0::2]) + [st[1]]
                    elif st is not None:
                        more = [o._firstbucket]
                else:
                    nx = getattr(o, '_next', None)
                    if nx is not None:
                        more = [nx]
                for x in more:
                    if id(x) not in seen:
                        seen.add(id(x))
                        nodes.append(x)
                        todo.append(x)
            del todo, seen
            o = more = st = x = nx = None   # (locals would hold references)
            occ = node_occurrences(nodes, tree_type)
            del nodes
        else:
            for c, m, t in containers:
                occ.update(occurrences(c, m, t))
        rc = {}
        for p, i in self._objs():
            rc[(id(p), i)] = sys.getrefcount(p[i])
        oc = {}
        for p, i in self._objs():
            oc[(id(p), i)] = occ.get(id(p[i]), 0)
        return rc, oc

    def diff(self, before, after):
        """-> list of (pool#, index, refcount delta, occurrence delta) where
        the two deltas disagree."""
        rc0, oc0 = before
        rc1, oc1 = after
        bad = []
        for pi, p in enumerate(self.pools):
            for i in range(len(p)):
                k = (id(p), i)
                dr = rc1[k] - rc0[k]
                do = oc1[k] - oc0[k]
                if dr != do:
                    bad.append((pi, i, dr, do))
        return bad
