"""Reference-count ledger (DESIGN 3.7).

Tracked keys and values live in pools and are addressed by index, so that no
harness frame holds a stray reference.  The ledger compares the CHANGE of
sys.getrefcount of every tracked object across an operation with the CHANGE
of the number of times the object occurs in the container's node states
(leaf key slots, leaf value slots, separators)."""
import gc
import sys
from collections import Counter


class TV:
    """A tracked value object (unique identity, equality by payload)."""
    __slots__ = ('v',)

    def __init__(self, v):
        self.v = v

    def __eq__(self, o):
        return isinstance(o, TV) and self.v == o.v

    def __ne__(self, o):
        return not self.__eq__(o)

    def __hash__(self):
        return hash(self.v)

    def __reduce__(self):
        return (TV, (self.v,))

    def __repr__(self):
        return 'TV(%r)' % (self.v,)


def occurrences(c, is_mapping, is_tree):
    """Counter(id -> times the object is referenced from node states)."""
    cnt = Counter()

    def leaf(st):
        flat = st[0]
        for o in flat:
            cnt[id(o)] += 1

    def node(o):
        st = o.__getstate__()
        if st is None:
            return
        if len(st) == 1:
            leaf(st[0][0])
            return
        data = st[0]
        for s in data[1::2]:
            cnt[id(s)] += 1
        for ch in data[0::2]:
            if type(ch) is type(o):
                node(ch)
            else:
                leaf(ch.__getstate__())
    if is_tree:
        node(c)
    else:
        leaf(c.__getstate__())
    return cnt


class Ledger:
    def __init__(self, pools):
        """pools: list of lists of tracked objects (kept alive by the
        pools themselves)."""
        self.pools = pools

    def _objs(self):
        for p in self.pools:
            for i in range(len(p)):
                yield p, i

    def snapshot(self, containers):
        """containers: list of (container, is_mapping, is_tree)."""
        gc.collect()
        occ = Counter()
        for c, m, t in containers:
            occ.update(occurrences(c, m, t))
        rc = {}
        for p, i in self._objs():
            rc[(id(p), i)] = sys.getrefcount(p[i])
        oc = {}
        for p, i in self._objs():
            oc[(id(p), i)] = occ.get(id(p[i]), 0)
        return rc, oc

    def diff(self, before, after):
        """-> list of (pool#, index, refcount delta, occurrence delta) where
        the two deltas disagree."""
        rc0, oc0 = before
        rc1, oc1 = after
        bad = []
        for pi, p in enumerate(self.pools):
            for i in range(len(p)):
                k = (id(p), i)
                dr = rc1[k] - rc0[k]
                do = oc1[k] - oc0[k]
                if dr != do:
                    bad.append((pi, i, dr, do))
        return bad
