"""Operations between containers that BOTH live in a database, with faults
injected at the moment a node is loaded (shared by C05 and C16).

Two containers A and B are stored in one MiniDB connection, committed and
evicted (some nodes are re-activated again, so that ghosts and loaded nodes
are mixed).  One operation then runs with

  * a cache sweep at the n-th load the operation causes (every other cached
    node that is not pinned or changed becomes a ghost while the operation is
    in the middle of its work: what a cache does when a load pushes it over
    its size limit), and optionally
  * a refusal of a later load (the data manager raises: read conflict, lost
    storage), so that a node the operation already worked with - and that the
    sweep took away - cannot be brought back.

The operation also runs on an unstored twin pair of the same implementation.
What is demanded of the stored run is decided by the caller's property:

  C05  no refusal: same result as the twins; refusal: the caller sees the
       data manager's error, the operands keep their contents and stay
       sound; in both cases no node is left pinned.
  C16  every object held in a node slot has exactly as many references as
       there are slots holding it (absolute ledger over all live nodes),
       whatever the outcome; the workload also runs on the ASan build.
"""
from .harness import safe_repr as _srepr  # noqa: E402
import gc
import sys
from collections import Counter

from . import families, gen, harness, hist, minidb, walker
from .harness import brief, eq
from .inject import FKey

GHOST = -1


def _listing(r):
    if r is None or isinstance(r, (bool, int, float, str, bytes)):
        return r
    if isinstance(r, tuple):
        return tuple(_listing(x) for x in r)
    if isinstance(r, list):
        return [_listing(x) for x in r]
    name = type(r).__name__.replace('Py', '')
    if hasattr(r, 'items') and not isinstance(r, dict):
        return (name, list(r.items()))
    if hasattr(r, 'keys'):
        return (name, list(r.keys()))
    return r


def _ip(sym):
    def f(F, i, A, B):
        if sym == '|=':
            A |= B
        elif sym == '&=':
            A &= B
        elif sym == '-=':
            A -= B
        else:
            A ^= B
        return A
    return f


def _lazy(F, i, A, B):
    s = A.keys()
    n = len(s)
    out = [n]
    for j in (0, -1, n // 2, n // 2 - 1, 0):
        try:
            out.append(s[j])
        except IndexError:
            out.append('IndexError')
    return out


def _pairwalk(F, i, A, B):
    out = []
    ia, ib = iter(A), iter(B)
    for _ in range(40):
        a = next(ia, harness.MISSING)
        b = next(ib, harness.MISSING)
        if a is harness.MISSING and b is harness.MISSING:
            break
        out.append((a, b))
    return out


# name -> (callable(F, impl, A, B), mutates A?)
OPS = {
    'union': (lambda F, i, A, B: F.fn('union', i)(A, B), False),
    'intersection': (lambda F, i, A, B: F.fn('intersection', i)(A, B), False),
    'difference': (lambda F, i, A, B: F.fn('difference', i)(A, B), False),
    'or': (lambda F, i, A, B: A | B, False),
    'and': (lambda F, i, A, B: A & B, False),
    'sub': (lambda F, i, A, B: A - B, False),
    'xor': (lambda F, i, A, B: A ^ B, False),
    'wunion': (lambda F, i, A, B: F.fn('weightedUnion', i)(A, B, 1, 0),
               False),
    'wunion_r': (lambda F, i, A, B: F.fn('weightedUnion', i)(A, B, 0, 1),
                 False),
    'wintersection': (lambda F, i, A, B: F.fn('weightedIntersection', i)(
        A, B, 1, 0), False),
    'wintersection_r': (lambda F, i, A, B: F.fn('weightedIntersection', i)(
        A, B, 0, 1), False),
    'multiunion': (lambda F, i, A, B: F.fn('multiunion', i)([A, B, A]),
                   False),
    'isdisjoint': (lambda F, i, A, B: A.isdisjoint(B), False),
    'ctor': (lambda F, i, A, B: type(A)(B), False),
    'listing': (lambda F, i, A, B: (_listing(A), _listing(B)), False),
    'lens': (lambda F, i, A, B: (len(A), bool(B), len(B)), False),
    'minmax': (lambda F, i, A, B: (A.minKey(), B.maxKey()), False),
    'lazy': (_lazy, False),
    'pairwalk': (_pairwalk, False),
    'update': (lambda F, i, A, B: (A.update(B), A)[1], True),
    'ior': (_ip('|='), True),
    'iand': (_ip('&='), True),
    'isub': (_ip('-='), True),
    'ixor': (_ip('^='), True),
}


def applicable(fam, kind_a, kind_b):
    a_map = kind_a in families.MAPPING_KINDS
    b_map = kind_b in families.MAPPING_KINDS
    ops = ['union', 'intersection', 'difference', 'or', 'and', 'sub',
           'listing', 'lens', 'minmax', 'pairwalk', 'difference', 'sub']
    if kind_a in families.TREE_KINDS:
        ops += ['lazy']
    if not a_map:
        ops += ['xor', 'isdisjoint', 'update', 'ior', 'iand', 'isub', 'ixor',
                'ctor']
    elif b_map:
        ops += ['update', 'ctor']
    if fam.has_weighted:
        ops += ['wunion', 'wunion_r', 'wintersection', 'wintersection_r'] * 2
    if fam.has_multiunion:
        ops += ['multiunion'] * 2
    return ops


# ---- the absolute ledger ----------------------------------------------------

def closure(nodes, tree_types):
    """All live node objects reachable from `nodes` through child, first
    bucket and next pointers (ghosts are not entered)."""
    out = []
    seen = set()
    todo = list(nodes)
    o = st = x = more = None
    while todo:
        o = todo.pop()
        if id(o) in seen:
            continue
        seen.add(id(o))
        out.append(o)
        if getattr(o, '_p_state', 0) == GHOST:
            continue
        more = []
        if type(o) in tree_types:
            st = o.__getstate__()
            if st is not None and len(st) == 2:
                more = list(st[0][0::2]) + [st[1]]
            elif st is not None:
                more = [o._firstbucket]
        else:
            x = getattr(o, '_next', None)
            if x is not None:
                more = [x]
        todo.extend(more)
    o = st = x = more = None
    return out


def absolute_imbalance(nodes, tree_types, tracked_types, skip_ids=()):
    """For every object of a tracked type found in a slot (leaf key, leaf
    value, separator) of a live, loaded node: sys.getrefcount must equal the
    number of slots holding it (+ our own two).  Objects the harness itself
    keeps (skip_ids) are not judged.  -> list of (repr, refcount - expected,
    slots)"""
    gc.collect()
    occ = Counter()
    uniq = []
    have = set()
    o = st = x = slots = None
    for o in nodes:
        if getattr(o, '_p_state', 0) == GHOST:
            continue
        st = o.__getstate__()
        if st is None:
            continue
        if type(o) in tree_types:
            slots = st[0][1::2] if len(st) == 2 else ()
        else:
            slots = st[0]
        for x in slots:
            if type(x) in tracked_types and id(x) not in skip_ids:
                occ[id(x)] += 1
                if id(x) not in have:
                    have.add(id(x))
                    uniq.append(x)
    o = st = x = slots = None
    bad = []
    for i in range(len(uniq)):
        rc = sys.getrefcount(uniq[i])
        want = occ[id(uniq[i])] + 2
        if rc != want:
            bad.append((repr(uniq[i]), rc - want, occ[id(uniq[i])]))
    n = len(uniq)
    del uniq
    return bad, n


# ---- one case --------------------------------------------------------------------

def _fill(c, is_mapping, keys, values, rng, log=None):
    for n, k in enumerate(keys):
        if is_mapping:
            c[k] = values[(n * 7 + len(keys)) % len(values)]
        else:
            c.add(k)


def run_case(fam, impl, rng, rec, tag, *, ledger_mode=False, refuse=True,
             leaves_only=False, behaviour=True, tagger=None):
    """One stored pair, one faulted operation.  -> None; violations and
    events go to rec."""
    kinds = ['Bucket', 'Set', 'BTree', 'TreeSet']
    ka = rng.choice(kinds)
    kb = rng.choice(kinds)
    # a quarter of the cases is aimed: the first operand is a loaded leaf
    # that a cursor of a set operation walks, the second operand is a ghost
    # whose load sweeps the cache, and the load after that is refused (the
    # first operand cannot be brought back in the middle of the walk)
    directed = rng.random() < .25
    if directed:
        ka = rng.choice(['Bucket', 'Set', 'Bucket', 'TreeSet', 'BTree'])
    a_map = ka in families.MAPPING_KINDS
    b_map = kb in families.MAPPING_KINDS
    sizes = gen.NODE_SIZES[rng.randrange(len(gen.NODE_SIZES))]
    if rng.random() < .15:
        sizes = None
    for k_ in ('BTree', 'TreeSet'):
        cls_ = fam.cls(k_, impl)
        harness.set_node_sizes(cls_, *(sizes or (60, 120)))
    tree_types = {fam.cls('BTree', impl), fam.cls('TreeSet', impl)}
    if ledger_mode and fam.kc == 'O':
        universe = [FKey(i) for i in range(-9, 15)]
    else:
        universe = [k for k in fam.key_universe(rng) if k is not None] \
            if ledger_mode else fam.key_universe(rng)
    if ledger_mode and fam.vc == 'O':
        from .ledger import TV
        values = [TV(j) for j in range(6)]
    else:
        values = fam.values(rng)
    if fam.has_weighted and fam.vc in 'IULQ':
        # (what happens on overflow is not part of any property)
        values = [v for v in values if abs(v) < 1000] or [0, 1]
    skip = set(id(x) for x in universe) | set(id(x) for x in values)
    na = rng.choice([0, 1, 2, 5, 9, 14, 20])
    nb = rng.choice([0, 1, 3, 6, 12, 20])
    if directed:
        na, nb = rng.choice([2, 5, 9, 14]), rng.choice([1, 3, 6, 12])
    keys_a = rng.sample(universe, min(na, len(universe)))
    keys_b = rng.sample(universe, min(nb, len(universe)))
    if rng.random() < .3 and keys_a:
        keys_b = list(dict.fromkeys(keys_b + rng.sample(keys_a, min(
            3, len(keys_a)))))
    drop_a = rng.sample(keys_a, len(keys_a) // 3) if rng.random() < .4 else []
    desc = dict(family=fam.name, impl=impl, kind_a=ka, kind_b=kb, sizes=sizes,
                na=len(keys_a) - len(drop_a), nb=len(keys_b), tag=tag)

    def build(kind, keys, drop):
        c = fam.cls(kind, impl)()
        m = kind in families.MAPPING_KINDS
        _fill(c, m, keys, values, rng)
        for k in drop:           # thinned: unlinked leaves, stale separators
            if m:
                del c[k]
            else:
                c.remove(k)
        return c
    try:
        A, B = build(ka, keys_a, drop_a), build(kb, keys_b, [])
        At, Bt = build(ka, keys_a, drop_a), build(kb, keys_b, [])
    except TypeError:
        rec.ev('dbops:unbuildable')
        return
    for c_, m_ in ((A, a_map), (B, b_map)):
        if type(c_) in tree_types:
            w = walker.walk(c_, m_)
            inl = w.inline_nonroot
            del w
            if inl:
                rec.ev('dbops:f22-shape-skipped')
                return
    st = minidb.Storage()
    conn = minidb.Connection(st, impl)
    conn.log_events = False
    conn.add(A)
    conn.add(B)
    try:
        conn.commit()
    except Exception as e:
        rec.ev('dbops:unstorable')
        del e
        return
    conn.cache.minimize()
    # mixed states: some nodes loaded again, the rest ghosts
    r = rng.random()
    if directed:
        r = 0.0
    if r < .35:
        harness.contents(A, a_map)
    elif r < .5:
        harness.contents(B, b_map)
    elif r < .65 and len(keys_a) > len(drop_a):
        k0 = [k for k in keys_a if k not in drop_a][0]
        (k0 in A)
    multi_leaf_a = False
    if type(At) in tree_types:
        w = walker.walk(At, a_map)
        multi_leaf_a = len(w.leaf_keys) > 1
        del w
    desc['multi_leaf_a'] = multi_leaf_a
    ops = applicable(fam, ka, kb)
    op = rng.choice(ops)
    if directed:
        cur_ops = [o for o in ops if o in (
            'union', 'intersection', 'difference', 'or', 'and', 'sub',
            'wunion', 'wunion_r', 'wintersection', 'wintersection_r',
            'multiunion', 'update', 'ior', 'isub', 'pairwalk')]
        op = rng.choice(cur_ops)
    fn, mutating = OPS[op]
    before_a = harness.contents(At, a_map)
    before_b = harness.contents(Bt, b_map)
    s_at = rng.choice([1, 1, 2, 2, 3, 4])
    if directed:
        s_at = 1
    conn.sweep_at_setstate = s_at
    conn.sweep_leaves_only = leaves_only
    f_at = 0
    if refuse and (directed or rng.random() < .6):
        f_at = s_at + rng.choice([0, 1, 1, 2])
        if directed and rng.random() < .7:
            f_at = s_at + 1
        conn.fail_setstate = f_at
    desc.update(op=op, sweep_at_load=s_at, refuse_load=f_at,
                leaves_only=leaves_only, directed=directed)
    rec.journal(_srepr(desc))
    refused0, sweeps0, loads0 = conn.loads_refused, conn.incall_sweeps, \
        conn.loads
    res = exc = None
    try:
        res = fn(fam, impl, A, B)
    except Exception as e:
        exc = type(e).__name__
        exc_text = '%s: %s' % (exc, e)
        del e
    finally:
        conn.sweep_at_setstate = 0
        conn.fail_setstate = 0
    refused = conn.loads_refused > refused0
    swept = conn.incall_sweeps > sweeps0
    rec.evaluations += 1
    rec.ev('%s:%s:cases' % (impl, tag))
    if swept:
        rec.ev('%s:%s:sweep-inside-load' % (impl, tag))
        if conn.loads - loads0 > s_at:
            rec.ev('%s:%s:reload-after-in-load-sweep' % (impl, tag))
    if refused:
        rec.ev('%s:%s:load-refused' % (impl, tag))
        if swept and f_at > s_at:
            rec.ev('%s:%s:load-refused-after-sweep' % (impl, tag))
    rec.seen(impl, tag, ka, kb, op, exc or 'ok', swept, refused)

    def fail(mech, **kw):
        d = dict(desc)
        d.update(kw)
        if tagger is not None:
            t_ = tagger(mech, d)
            if t_:
                d['finding'] = t_
        rec.violation(mech, **d)

    # ---- behaviour, judged first but reported last (the listings hold
    # references that the ledger must not see) ------------------------------------
    verdict = None
    if exc == 'DMBoom' and not refused:
        verdict = ('data-manager-error-without-a-refusal', {})
    want = wexc = got = None
    if not refused or not mutating:
        try:
            want = _listing(fn(fam, impl, At, Bt))
        except Exception as e:
            wexc = type(e).__name__
            del e
    if exc is None:
        got = _listing(res)
    del res
    if verdict is None and not refused:
        if exc != wexc or (exc is None and not eq(got, want)):
            verdict = ('result-differs-from-unstored-twins', dict(
                observed=exc_text if exc else brief(got, 300),
                expected=wexc or brief(want, 300), swept=swept))
    elif verdict is None:
        if exc is None:
            # a refused load that the caller never hears of: only harmless
            # if the result is nevertheless the complete one
            if not mutating and (wexc is not None or not eq(got, want)):
                verdict = ('refused-load-swallowed-and-result-wrong', dict(
                    observed=brief(got, 300),
                    expected=wexc or brief(want, 300)))
            else:
                rec.ev('%s:%s:refusal-not-reported-result-complete' % (
                    impl, tag))
        elif exc != 'DMBoom' and exc != wexc:
            verdict = ('refused-load-reported-as-another-error', dict(
                observed=exc_text, expected='DMBoom'))
    del got, want
    # ---- pins (C05: nothing stays pinned, whatever the outcome) -------------
    stk = conn.sticky_objects()
    for c_ in (A, B):
        if getattr(c_, '_p_sticky', False) and c_ not in stk:
            stk.append(c_)
    if stk:
        fail('node-left-pinned', outcome=exc or 'ok',
             pinned=[type(o).__name__ for o in stk][:4])
        for o in stk:
            try:
                o._p_sticky = False
            except Exception:
                pass
        del stk
        return
    del stk
    # ---- the ledger (C16) ------------------------------------------------------
    if ledger_mode:
        tracked = set()
        if fam.kc == 'O':
            tracked.add(FKey)
        if fam.vc == 'O':
            from .ledger import TV
            tracked.add(TV)
        if tracked:
            seeds = conn.cached_objects() + list(conn.registered) + \
                list(conn.added.values()) + [A, B]
            nodes = closure(seeds, tree_types)
            del seeds
            bad, nobj = absolute_imbalance(nodes, tree_types, tracked, skip)
            del nodes
            rec.ev('%s:%s:ledger-objects' % (impl, tag), nobj)
            rec.ev('%s:%s:ledger-checks' % (impl, tag))
            if bad:
                fail('reference-count-imbalance-after-faulted-load',
                     outcome=exc or 'ok', swept=swept, refused=refused,
                     imbalance=brief(bad[:6], 400))
                return
    if not behaviour:
        # (memory only: read everything back so that a freed or foreign
        # object still referenced from a slot is touched)
        try:
            if refused and exc is not None:
                # a refused load inside a deleting operator can leave an
                # emptied leaf linked (recorded finding F38, judged by C17 /
                # C01 / C03): the range search behind keys() / items() has
                # an assert() about that in the assert-enabled builds.  Every
                # slot is read through the nodes' states instead.
                for o_, m_ in ((A, a_map), (B, b_map)):
                    if type(o_).__name__.endswith(('BTree', 'TreeSet')):
                        walker.walk(o_, m_, check_sizes=False).release()
                    else:
                        repr(harness.contents(o_, m_))
            else:
                repr(harness.contents(A, a_map))
                repr(harness.contents(B, b_map))
        except Exception:
            pass
        conn.abort()
        conn.cache.minimize()
        return
    if verdict is not None:
        fail(verdict[0], **verdict[1])
        return
    # ---- operands afterwards: contents and soundness -----------------------------
    try:
        now_a = harness.contents(A, a_map)
        now_b = harness.contents(B, b_map)
    except Exception as e:
        fail('contents-raised-afterwards', detail='%s: %s' % (
            type(e).__name__, e), refused=refused, stored=True, which='A')
        return
    if not eq(now_b, before_b):
        fail('second-operand-changed', observed=brief(now_b, 300),
             expected=brief(before_b, 300))
        return
    if not mutating:
        if not eq(now_a, before_a):
            fail('operand-changed-by-reading-operation',
                 observed=brief(now_a, 300), expected=brief(before_a, 300))
            return
    elif not refused:
        if not eq(now_a, harness.contents(At, a_map)):
            fail('contents-differ-from-unstored-twin',
                 observed=brief(now_a, 300),
                 expected=brief(harness.contents(At, a_map), 300))
            return
    for c_, m_ in ((A, a_map), (B, b_map)):
        if type(c_) in tree_types:
            errs, w = hist.structural_checks(c_, m_, sizes=sizes is not None)
            del w
            if errs:
                fail('tree-damaged', errors=errs[:3], outcome=exc or 'ok',
                     which='A' if c_ is A else 'B', refused=refused,
                     stored=True)
                return
    if conn.sticky_objects():
        fail('node-left-pinned', outcome='after-reading-back')
        return
    conn.abort()
    conn.cache.minimize()
