import argparse
import os
import sys

from . import build, runner


def main():
    ap = argparse.ArgumentParser(prog='vmon')
    sub = ap.add_subparsers(dest='cmd', required=True)
    c = sub.add_parser('check')
    c.add_argument('pid')
    c.add_argument('--tier', default=os.environ.get('VERIF_TIER', 'quick'),
                   choices=['quick', 'thorough'])
    c.add_argument('--seed', type=int,
                   default=int(os.environ.get('VERIF_SEED', '0') or 0))
    c.add_argument('--jobs', type=int, default=16)
    c.add_argument('--keep', action='store_true')
    s = sub.add_parser('shard')
    s.add_argument('pid')
    s.add_argument('spec')
    s.add_argument('out')
    r = sub.add_parser('replay')
    r.add_argument('path')
    sub.add_parser('setup')
    a = ap.parse_args()
    if a.cmd == 'check':
        sys.exit(runner.run_check(a.pid.upper(), a.tier, a.seed, jobs=a.jobs,
                                  keep=a.keep))
    if a.cmd == 'shard':
        runner.shard_main(a.pid, a.spec, a.out)
        return
    if a.cmd == 'replay':
        sys.exit(runner.replay(a.path))
    if a.cmd == 'setup':
        for v in ('mon', 'asan'):
            print(build.get_build(v, quiet=False))
        from . import selftest
        sys.exit(selftest.main())


main()
