"""Reference sorted map / sorted set (DESIGN 3.2).

A dict/set plus sorted() with None first.  Shares no code or ideas with
BTrees._base.  Range queries are list comprehensions over the sorted items.
"""
from .families import sort_keys

_marker = object()


def kle(a, b):
    """a <= b with None smallest."""
    if a is None:
        return True
    if b is None:
        return False
    return a <= b


def klt(a, b):
    if a is None:
        return b is not None
    if b is None:
        return False
    return a < b


class _RefBase:
    is_mapping = False

    def __init__(self, fam):
        self.fam = fam

    # -- helpers ---------------------------------------------------------
    def sorted_keys(self):
        return sort_keys(list(self._keys()))

    def _range_keys(self, min=_marker, max=_marker,
                    excludemin=False, excludemax=False):
        ks = self.sorted_keys()
        if min is _marker or min is None:
            if excludemin:
                ks = ks[1:]
        else:
            if excludemin:
                ks = [k for k in ks if klt(min, k)]
            else:
                ks = [k for k in ks if kle(min, k)]
        if max is _marker or max is None:
            if excludemax:
                # drops only the overall largest key (no upper filter was
                # applied, so if anything is left its last element is it)
                ks = ks[:-1]
        else:
            if excludemax:
                ks = [k for k in ks if klt(k, max)]
            else:
                ks = [k for k in ks if kle(k, max)]
        return ks

    def keys(self, *a, **kw):
        return self._range_keys(*a, **kw)

    iterkeys = keys

    def __iter__(self):
        return iter(self.sorted_keys())

    def __len__(self):
        return len(self._keys())

    def __bool__(self):
        return bool(self._keys())

    def __contains__(self, k):
        return k in self._keys()

    def has_key(self, k):
        return k in self._keys()

    def minKey(self, b=_marker):
        ks = self.sorted_keys()
        if b is not _marker and b is not None:
            ks = [k for k in ks if kle(b, k)]
        if not ks:
            raise ValueError
        return ks[0]

    def maxKey(self, b=_marker):
        ks = self.sorted_keys()
        if b is not _marker and b is not None:
            ks = [k for k in ks if kle(k, b)]
        if not ks:
            raise ValueError
        return ks[-1]


class RefMap(_RefBase):
    is_mapping = True

    def __init__(self, fam, items=()):
        super().__init__(fam)
        self.d = {}
        for k, v in items:
            self[k] = v

    def copy(self):
        r = RefMap(self.fam)
        r.d = dict(self.d)
        return r

    def _keys(self):
        return self.d

    def sorted_items(self):
        return [(k, self.d[k]) for k in self.sorted_keys()]

    def contents(self):
        return self.sorted_items()

    def __setitem__(self, k, v):
        self.d[self.fam.norm_key(k)] = self.fam.norm_val(v)

    def __delitem__(self, k):
        del self.d[k]

    def __getitem__(self, k):
        return self.d[k]

    def get(self, k, default=None):
        return self.d.get(k, default)

    def insert(self, k, v):
        if k in self.d:
            return 0
        self[k] = v
        return 1

    def setdefault(self, k, v):
        if k in self.d:
            return self.d[k]
        self[k] = v
        # like dict.setdefault: the object that was passed in is returned
        return v

    def pop(self, k, default=_marker):
        if k in self.d:
            return self.d.pop(k)
        if default is _marker:
            raise KeyError(k)
        return default

    def popitem(self):
        ks = self.sorted_keys()
        if not ks:
            raise KeyError
        k = ks[0]
        return (k, self.d.pop(k))

    def update(self, items):
        if hasattr(items, 'items'):
            items = items.items()
        for k, v in items:
            self[k] = v

    def clear(self):
        self.d.clear()

    def values(self, *a, **kw):
        return [self.d[k] for k in self._range_keys(*a, **kw)]

    itervalues = values

    def items(self, *a, **kw):
        return [(k, self.d[k]) for k in self._range_keys(*a, **kw)]

    iteritems = items


class RefSet(_RefBase):
    def __init__(self, fam, keys=()):
        super().__init__(fam)
        self.s = set()
        for k in keys:
            self.add(k)

    def copy(self):
        r = RefSet(self.fam)
        r.s = set(self.s)
        return r

    def _keys(self):
        return self.s

    def contents(self):
        return self.sorted_keys()

    def add(self, k):
        k = self.fam.norm_key(k)
        if k in self.s:
            return 0
        self.s.add(k)
        return 1

    insert = add

    def remove(self, k):
        if k not in self.s:
            raise KeyError(k)
        self.s.remove(k)

    def discard(self, k):
        self.s.discard(k)

    def pop(self):
        ks = self.sorted_keys()
        if not ks:
            raise KeyError
        self.s.remove(ks[0])
        return ks[0]

    def update(self, it):
        n = 0
        for k in it:
            n += self.add(k)
        return n

    def clear(self):
        self.s.clear()

    def isdisjoint(self, other):
        return not (self.s & set(other))

    def __ior__(self, other):
        for k in other:
            self.add(k)
        return self

    def __iand__(self, other):
        self.s &= set(other)
        return self

    def __isub__(self, other):
        self.s -= set(other)
        return self

    def __ixor__(self, other):
        self.s ^= set(other)
        return self

    def __getitem__(self, i):
        return self.sorted_keys()[i]
