"""Self-tests of the trusted harness pieces (run by `vmon setup`): MiniDB with
a trivially persistent class, the walker on hand-made trees, the reference
model, the merge specification."""
import subprocess
import sys

from . import build


def _inner():
    build.assert_build_loaded()
    from persistent import Persistent
    from . import families, minidb, model, walker, mergespec

    # --- MiniDB with a plain persistent class ---------------------------
    from BTrees.Length import Length
    st = minidb.Storage()
    c1 = minidb.Connection(st, 'c')
    ln = Length(5)
    oid = c1.add(ln)
    c1.commit()
    c2 = minidb.Connection(st, 'c')
    c3 = minidb.Connection(st, 'c')
    a, b = c2.get(oid), c3.get(oid)
    assert a() == 5 and b() == 5
    a.change(3)
    b.change(-1)
    c2.commit()
    c3.commit()                      # resolved by Length._p_resolveConflict
    assert minidb.Connection(st, 'c').get(oid)() == 7
    assert c3.last_resolved == [oid]
    # abort restores
    a.change(100)
    c2.abort()
    assert a() == 7, a()
    # eviction and reload
    c2.cache.minimize()
    assert a._p_state == -1 and a() == 7 and a._p_state == 0
    # read-current conflict
    fam = families.get('II')
    from BTrees.IIBTree import IIBTree
    IIBTree.max_leaf_size = 2
    IIBTree.max_internal_size = 2
    t = IIBTree({i: i for i in range(12)})
    roid = c1.add(t)
    c1.commit()
    w = walker.walk(t, True)
    assert not w.errors and w.height >= 3, (w.errors, w.height)
    assert sorted(w.keys) == list(range(12))
    r = minidb.Connection(st, 'py').get(roid)
    assert list(r.items()) == [(i, i) for i in range(12)]
    r._check()
    # --- walker detects a damaged chain -------------------------------
    leaves = w.leaf_objs
    leaves[1]._next = leaves[3]
    w2 = walker.walk(t, True)
    assert w2.errors, 'walker missed a damaged chain'
    # --- model ------------------------------------------------------------
    m = model.RefMap(families.get('OO'))
    for k in (3, None, 1, 2):
        m[k] = k
    assert m.sorted_keys() == [None, 1, 2, 3]
    assert m.keys(excludemin=True) == [1, 2, 3]
    assert m.keys(1, None, False, True) == [1, 2]
    assert m.minKey(None) is None and m.maxKey(2) == 2
    # --- mergespec --------------------------------------------------------
    d = mergespec.decide({1: 1, 2: 2}, {1: 1, 2: 2, 3: 3}, {1: 1, 2: 9})
    assert d == ('merge', {1: 1, 2: 9, 3: 3}), d
    assert mergespec.decide({1: 1, 2: 2}, {2: 2}, {1: 1, 2: 2, 3: 3})[0] \
        == 'refuse'
    print('vmon selftest ok')


def main():
    env = build.worker_env('mon')
    p = subprocess.run([build.PY, '-c',
                        'from vmon import selftest; selftest._inner()'],
                       env=env, cwd=build.VERIF)
    return p.returncode


if __name__ == '__main__':
    sys.exit(main())
