"""Families table and argument palettes (DESIGN 3.1).

Written independently of BTrees._datatypes: this is an oracle, not a copy.
"""
import importlib
import struct

INT_RANGES = {
    'I': (-2**31, 2**31 - 1),
    'U': (0, 2**32 - 1),
    'L': (-2**63, 2**63 - 1),
    'Q': (0, 2**64 - 1),
}

FAMILY_NAMES = ("II", "IO", "IF", "IU", "UU", "UO", "UF", "UI",
                "LL", "LO", "LF", "LQ", "QQ", "QO", "QF", "QL",
                "OO", "OI", "OU", "OL", "OQ", "fs")

KINDS = ('BTree', 'Bucket', 'TreeSet', 'Set')
MAPPING_KINDS = ('BTree', 'Bucket')
SET_KINDS = ('TreeSet', 'Set')
TREE_KINDS = ('BTree', 'TreeSet')


def f32(x):
    """Round a Python float to single precision (the float value domain)."""
    return struct.unpack('f', struct.pack('f', x))[0]


class Family:
    def __init__(self, name):
        self.name = name
        self.kc = name[0]
        self.vc = name[1]
        self.mod = importlib.import_module('BTrees.%sBTree' % name)
        self.cmod = importlib.import_module('BTrees._%sBTree' % name)
        self.has_multiunion = self.kc in 'IULQ'
        self.has_weighted = self.vc in 'IULQF'
        self.int_keys = self.kc in 'IULQ'
        self.obj_keys = self.kc == 'O'

    def cls(self, kind, impl):
        n = self.name + kind + ('Py' if impl == 'py' else '')
        return getattr(self.mod, n)

    def fn(self, name, impl):
        return getattr(self.mod, name + ('Py' if impl == 'py' else ''))

    # ---- domains -------------------------------------------------------
    def key_ok(self, k):
        """Independent representability predicate for keys."""
        c = self.kc
        if c in INT_RANGES:
            if type(k) is bool:
                # bool is an int subclass: representable as 0 / 1
                lo, hi = INT_RANGES[c]
                return True
            if not isinstance(k, int):
                return False
            lo, hi = INT_RANGES[c]
            return lo <= k <= hi
        if c == 'f':
            return isinstance(k, bytes) and len(k) == 2
        if c == 'O':
            if k is None:
                return True
            # objects with default comparison are not orderable
            return type(k).__lt__ is not object.__lt__
        raise AssertionError(c)

    def val_ok(self, v):
        c = self.vc
        if c in INT_RANGES:
            if not isinstance(v, int):
                return False
            lo, hi = INT_RANGES[c]
            return lo <= v <= hi
        if c == 'F':
            if isinstance(v, bool):
                return True
            if isinstance(v, int):
                try:
                    float(v)
                except OverflowError:
                    return False      # no double (hence no float) for it
                return True
            return isinstance(v, float)
        if c == 's':
            return isinstance(v, bytes) and len(v) == 6
        if c == 'O':
            return True
        raise AssertionError(c)

    def norm_val(self, v):
        """Normal form a stored value reads back as."""
        if self.vc == 'F':
            try:
                return f32(float(v))
            except OverflowError:
                return float('inf') if v > 0 else float('-inf')
        if self.vc in INT_RANGES:
            return int(v)
        return v

    def norm_key(self, k):
        if self.kc in INT_RANGES:
            return int(k)
        return k

    # ---- palettes ------------------------------------------------------
    def key_universe(self, rng, n=24, flavour=None):
        """An in-domain key universe: a dense block plus the extremes."""
        c = self.kc
        if c in INT_RANGES:
            lo, hi = INT_RANGES[c]
            if flavour is None:
                flavour = rng.choice(['zero', 'zero', 'low', 'high', 'mid'])
            if flavour == 'zero':
                base = max(lo, -(n // 2)) if lo < 0 else 0
            elif flavour == 'low':
                base = lo
            elif flavour == 'high':
                base = hi - n + 1
            else:
                base = (2**31 - n // 2) if c in 'UQL' else 1000
                if c == 'Q' and rng.random() < .5:
                    base = 2**63 - n // 2
            step = rng.choice([1, 1, 2, 3])
            block = [base + i * step for i in range(n) if
                     lo <= base + i * step <= hi]
            ext = [lo, lo + 1, 0, 1, hi - 1, hi]
            if lo < 0:
                ext.append(-1)
            if c in 'UQ':
                ext += [2**31, 2**32 - 1]
            if c == 'Q':
                ext += [2**63, 2**64 - 1]
            ext = [e for e in ext if lo <= e <= hi]
            keys = list(dict.fromkeys(block + rng.sample(ext, min(4, len(ext)))))
            return keys
        if c == 'f':
            pool = [bytes([a, b]) for a in (0, 1, 0x7f, 0x80, 0xff)
                    for b in (0, 1, 0x41, 0x7f, 0x80, 0xfe, 0xff)]
            rng.shuffle(pool)
            keys = pool[:n]
            for e in (b'\x00\x00', b'\xff\xff'):
                if e not in keys and rng.random() < .5:
                    keys.append(e)
            return keys
        if c == 'O':
            if flavour is None:
                flavour = rng.choice(['int', 'int', 'str', 'tuple'])
            if flavour == 'int':
                keys = list(range(-n // 2, n // 2))
            elif flavour == 'str':
                keys = ['k%02d' % i for i in range(n)] + ['']
            else:
                keys = [(i // 4, i % 4) for i in range(n)] + [()]
            if rng.random() < .7:
                keys.append(None)
            return keys
        raise AssertionError(c)

    def values(self, rng, n=6):
        c = self.vc
        if c in INT_RANGES:
            lo, hi = INT_RANGES[c]
            vs = [0, 1, 2, 7, hi, hi - 1, lo, lo + 1]
            return list(dict.fromkeys(v for v in vs if lo <= v <= hi))
        if c == 'F':
            return [0.0, 1.0, -2.5, 0.1, 1e10, 3.0e38, float('inf'), 16777217.0,
                    float('nan'), -0.0, float('-inf')]
        if c == 's':
            return [b'\x00' * 6, b'abcdef', b'\xff' * 6, b'\x00\x01\x02\x03\x04\x05']
        if c == 'O':
            # (1 / 1.0 / True: equal, yet not the same datum - storing one
            # over the other is a change that must not be optimised away)
            return [None, 0, 'v', (1, 2), 3.5, 'w' * 3, [1], {'a': 1},
                    1, 1.0, True]
        raise AssertionError(c)

    def sort_key(self):
        if self.kc == 'O':
            return lambda k: (k is not None, k) if k is not None else (False, 0)
        return lambda k: k


def sort_keys(keys):
    """sorted() with None first (for object keys)."""
    nn = [k for k in keys if k is not None]
    r = sorted(nn)
    if len(nn) != len(keys):
        r.insert(0, None)
    return r


_cache = {}


def get(name):
    f = _cache.get(name)
    if f is None:
        f = _cache[name] = Family(name)
    return f


def all_families():
    return [get(n) for n in FAMILY_NAMES]


# ---------------------------------------------------------------------------
# hostile / boundary arguments (C09, C13)

def is_duck_number(v):
    """Not an int / float, but convertible by operator.index() or float():
    the Python implementation converts through struct / operator and accepts
    these where the C implementation checks the exact type (finding F15)."""
    import decimal
    import fractions
    return isinstance(v, (Indexable, fractions.Fraction, decimal.Decimal))


class Indexable:
    """Has __index__ but is not an int."""
    def __init__(self, n):
        self.n = n

    def __index__(self):
        return self.n

    def __repr__(self):
        return 'Indexable(%d)' % self.n

    # orderable so that it is a legitimate object key
    def __lt__(self, o):
        return self.n < getattr(o, 'n', o)

    def __gt__(self, o):
        return self.n > getattr(o, 'n', o)

    def __le__(self, o):
        return self.n <= getattr(o, 'n', o)

    def __ge__(self, o):
        return self.n >= getattr(o, 'n', o)

    def __eq__(self, o):
        return self.n == getattr(o, 'n', o)

    def __hash__(self):
        return hash(self.n)


class Ordered:
    """A well-ordered custom class (legitimate object key)."""
    def __init__(self, n):
        self.n = n

    def __repr__(self):
        return 'Ordered(%r)' % (self.n,)

    def _k(self, o):
        if isinstance(o, Ordered):
            return o.n
        return NotImplemented

    def __lt__(self, o):
        k = self._k(o)
        return NotImplemented if k is NotImplemented else self.n < k

    def __gt__(self, o):
        k = self._k(o)
        return NotImplemented if k is NotImplemented else self.n > k

    def __le__(self, o):
        k = self._k(o)
        return NotImplemented if k is NotImplemented else self.n <= k

    def __ge__(self, o):
        k = self._k(o)
        return NotImplemented if k is NotImplemented else self.n >= k

    def __eq__(self, o):
        return isinstance(o, Ordered) and self.n == o.n

    def __hash__(self):
        return hash(self.n)


HASH_REFUSED = [False]


class HKey:
    """A totally ordered key that is NOT hashable while HASH_REFUSED[0] is
    set (the object-keyed families only require ordering: keys need no
    __hash__).  The harness and its oracles hash freely outside the call
    under test."""
    __slots__ = ('n',)

    def __init__(self, n):
        self.n = n

    def __repr__(self):
        return 'HKey(%r)' % (self.n,)

    def __reduce__(self):
        return (HKey, (self.n,))

    def __hash__(self):
        if HASH_REFUSED[0]:
            raise TypeError("unhashable type: 'HKey'")
        return hash(self.n)

    def __eq__(self, o):
        return isinstance(o, HKey) and self.n == o.n

    def __ne__(self, o):
        return not self.__eq__(o)

    def __lt__(self, o):
        return self.n < o.n

    def __le__(self, o):
        return self.n <= o.n

    def __gt__(self, o):
        return self.n > o.n

    def __ge__(self, o):
        return self.n >= o.n


class Plain:
    """Default comparison: not acceptable as an object key."""
    def __repr__(self):
        return 'Plain()'


def hostile_palette():
    """(label, value) pairs of boundary and wrong-typed data."""
    out = []
    for b in (31, 32, 63, 64):
        for d in (-2, -1, 0, 1):
            out.append(('int', 2**b + d))
            out.append(('int', -2**b + d))
    # ... and ints beyond CPython's 4300-digit limit for str(): an error
    # message that embeds the number must not turn TypeError into ValueError
    out += [('int', 2**100), ('int', -2**100), ('int', 2**2000),
            ('hugeint', 1 << 20000), ('hugeint', -(10 ** 5000)),
            ('int', 0), ('int', 1), ('int', -1), ('int', 5)]
    out += [('bool', True), ('bool', False)]
    for fl in (0.0, 1.0, -1.0, 2.5, 0.1, 1e39, -1e39, 1e300, 3.4028235e38,
               3.5e38, 1e-45, 1e-50, float('inf'), float('-inf'),
               float('nan'), 16777217.0):
        out.append(('float', fl))
    out += [('str', ''), ('str', 'a'), ('str', 'ab'), ('str', 'abcdef')]
    for n in range(0, 9):
        out.append(('bytes', bytes(range(65, 65 + n))))
    # bytes-like but not bytes; numbers equal to an int but not ints
    import decimal
    import fractions
    out += [('bytearray', bytearray(b'ab')), ('bytearray', bytearray(b'abcdef')),
            ('memoryview', memoryview(b'ab')),
            ('memoryview', memoryview(b'abcdef')),
            ('fraction', fractions.Fraction(7)),
            ('decimal', decimal.Decimal(7)), ('float', 7.0), ('int', 7)]
    # text that LOOKS like a number (int() / float() would parse it)
    out += [('numstr', '7'), ('numstr', '1.5'), ('numstr', ' 3 '),
            ('numstr', '1e3'), ('numstr', '1_000'), ('numstr', 'nan'),
            ('numstr', 'inf'), ('numbytes', b'2'),
            ('numbytes', bytearray(b'4'))]
    out += [('none', None), ('tuple', ()), ('tuple', (1, 2)),
            ('list', [1]), ('dict', {}), ('plain', Plain()),
            ('index', Indexable(3)), ('ordered', Ordered(3)),
            ('complex', 1j), ('type', int)]
    return out
