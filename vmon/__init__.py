"""vmon - runtime monitors for zopefoundation/BTrees (see /verif/DESIGN.md)."""
