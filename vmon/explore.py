"""Systematic workload ("small scope, every state"): instead of sampling
histories, EVERY operation of a small alphabet (insert / replace / delete of
each key of a small universe, pop-smallest, clear) is executed in EVERY
distinct state a tree can reach over that universe, breadth first.  A state
is the tree's contents TOGETHER WITH its internal shape (node sizes, keys per
leaf, separators), so two trees with equal contents reached along different
paths are different states.  The monitors are the ordinary ones (lock-step
reference model, structural checkers, independent walker, C/Python twin):
this module only decides which executions they get to watch.

A state is re-created by replaying the recorded shortest path from the empty
container (the container cannot be cloned through pickle: that is itself a
monitored behaviour, and not shape-preserving for all shapes).

The exploration is bounded by `max_states` (expanded states); the evidence
says whether the frontier was exhausted (`closed`), i.e. whether every state
reachable over the universe with this alphabet was expanded."""
from collections import deque

from . import families, hist, walker
from .harness import call, contents, eq


def alphabet(fam, kind, universe, values):
    is_mapping = kind in families.MAPPING_KINDS
    ops = []
    for i, k in enumerate(universe):
        if is_mapping:
            ops.append(('setitem', (k, values[i % len(values)])))
            if len(values) > 1:
                # (values are not part of the state: replacing one is an
                # operation tried in every state, not a state multiplier)
                ops.append(('setitem', (k, values[(i + 1) % len(values)])))
            ops.append(('delitem', (k,)))
        else:
            ops.append(('add', (k,)))
            ops.append(('remove', (k,)))
    ops.append(('popitem' if is_mapping else 'spop', ()))
    ops.append(('clear', ()))
    return ops


def state_key(c, is_mapping, is_tree):
    """-> (hashable key, Walk or None)."""
    if not is_tree:
        return ('leaf', repr(contents(c, is_mapping))), None
    w = walker.walk(c, is_mapping)
    return (repr(w.shape), repr(w.leaf_keys), repr(w.separators)), w


class NullRec:
    evaluations = 0

    def ev(self, *a, **k):
        pass

    seen = journal = sample = ev

    def violation(self, *a, **k):
        pass


def replay_raw(ls, path):
    """Apply a recorded path to container and model without monitoring (it
    was monitored when it was first taken)."""
    for op, args in path:
        call(ls.c, op, args)
        call(ls.m, op, args)
        ls.log.append((op, args))
    ls.walk = None


def explore(fam, kind, impl, sizes, universe, values, rec, rng,
            max_states=2000, judge=True, structure=True, on_state=None,
            twin_impl=None, on_pair=None, label=''):
    """Breadth-first over distinct states.  `on_state(ls, walk, path)` is
    called once for every new state (on a container in that state that the
    callback may use up).  With `twin_impl` the same path is run on the other
    implementation and `on_pair(ls, ls2, path)` compares them after every
    step.  -> dict of counters."""
    is_mapping = kind in families.MAPPING_KINDS
    is_tree = kind in families.TREE_KINDS
    ops = alphabet(fam, kind, universe, values)

    def fresh(which):
        ls = hist.LockStep(fam, kind, which, rng, rec, sizes=sizes,
                           structure=structure, judge=judge,
                           adversarial=0.0, read_ops=False)
        ls.g.universe = list(universe)
        return ls

    ls0 = fresh(impl)
    k0, _ = state_key(ls0.c, is_mapping, is_tree)
    seen = {k0: ()}
    queue = deque([()])
    expanded = steps = 0
    maxdepth = 0
    shapes = set()
    stopped = False
    while queue:
        if expanded >= max_states:
            stopped = True
            break
        path = queue.popleft()
        expanded += 1
        maxdepth = max(maxdepth, len(path))
        for op, args in ops:
            ls = fresh(impl)
            replay_raw(ls, path)
            ok = ls.step(op, args)
            steps += 1
            if not ok:
                # the monitors have recorded the violation (or known
                # finding); do not build on a state they rejected
                continue
            ls2 = None
            if twin_impl:
                ls2 = fresh(twin_impl)
                replay_raw(ls2, path)
                call(ls2.c, op, args)
                call(ls2.m, op, args)
                ls2.log.append((op, args))
                if on_pair(ls, ls2, path + ((op, args),)) is False:
                    continue
            key, w = state_key(ls.c, is_mapping, is_tree)
            if key in seen:
                continue
            seen[key] = path + ((op, args),)
            queue.append(seen[key])
            if w is not None:
                shapes.add(repr(w.shape))
                rec.seen(label, impl, kind, 'state', repr(w.shape),
                         tuple(len(x) for x in w.leaf_keys))
            else:
                rec.seen(label, impl, kind, 'state', key[1][:60])
            if on_state is not None:
                on_state(ls, w, seen[key])
    rec.ev('explore:states', len(seen))
    rec.ev('explore:expanded', expanded)
    rec.ev('explore:steps', steps)
    rec.ev('explore:shapes', len(shapes))
    if not stopped:
        rec.ev('explore:closed')
        rec.ev('explore:%s:closed' % impl)
    return dict(states=len(seen), expanded=expanded, steps=steps,
                shapes=len(shapes), closed=not stopped, maxdepth=maxdepth)


def small_universe(fam, n, rng):
    """n in-domain keys: both extremes of an integer domain, None for object
    keys, the rest adjacent small keys (collisions of neighbours are what
    shapes are made of)."""
    kc = fam.kc
    if kc in families.INT_RANGES:
        lo, hi = families.INT_RANGES[kc]
        mid = [k for k in (1, 2, 3, 5, 8, 13, 21, 34, 55) if lo <= k <= hi]
        u = [lo] + mid[:max(0, n - 2)] + [hi]
    elif kc == 'O':
        u = [None] + list(range(10, 10 * n, 10))[:n - 1]
    else:   # fs: two-byte strings
        u = [bytes([i, 255 - i]) for i in range(0, 16 * n, 16)][:n]
    return u[:n]


def small_values(fam, rng):
    if fam.vc is None:
        return [None]
    vs = [v for v in fam.values(rng)
          if not isinstance(v, float) or families.f32(v) == v]
    out = []
    for v in vs:
        if not any(eq(v, o) for o in out):
            out.append(v)
    return out[:3] or vs[:1]


# ---------------------------------------------------------------------------
# shard entry point shared by C01 / C02 / C03 / C09

def specs_for(pid, tier, seed, fams_quick, fams_thorough, u_quick=6,
              u_thorough=7, kinds=families.TREE_KINDS,
              impls=('c', 'py')):
    """Explorer shards for a property: quick = universe of `u_quick` keys at
    node sizes (2,2) / (2,3) / (3,2) (closed: every reachable state
    expanded), thorough = `u_thorough` keys and all families."""
    q = tier == 'quick'
    out = []
    fams = fams_quick if q else fams_thorough
    # (node sizes, keys in the universe, cap on expanded states)
    if q:
        settings = [((2, 2), u_quick, 4000), ((2, 3), u_quick, 4000),
                    ((3, 2), u_quick, 4000)]
    else:
        settings = [((2, 2), u_thorough, 40000), ((2, 3), u_thorough, 40000),
                    ((3, 2), u_thorough, 40000),
                    ((3, 3), u_thorough + 1, 20000)]
    n = 0
    for fam in fams:
        for kind in kinds:
            for impl in impls:
                # quick: one setting per (family, kind, impl), rotating with
                # the seed; thorough: all of them
                for sz, u, cap in ([settings[(n + seed) % len(settings)]]
                                   if q else settings):
                    out.append(dict(
                        label='explore-%s-%s-%s-%dx%d' % (fam, kind, impl,
                                                          sz[0], sz[1]),
                        explore=True, family=fam, kind=kind, impl=impl,
                        sizes=list(sz), universe=u, max_states=cap,
                        seed=seed, tier=tier, variant='mon',
                        timeout=1200 if q else 10800))
                n += 1
    return out


def run_shard(pid, spec, rec):
    from .runner import rng_for
    fam = families.get(spec['family'])
    kind, impl = spec['kind'], spec['impl']
    sizes = tuple(spec['sizes'])
    rng = rng_for(spec['seed'], pid, spec['label'])
    uni = small_universe(fam, spec['universe'], rng)
    vals = small_values(fam, rng)
    is_mapping = kind in families.MAPPING_KINDS
    kw = dict(max_states=spec['max_states'], label=pid)
    if pid == 'C01':
        r = explore(fam, kind, impl, sizes, uni, vals, rec, rng, judge=True,
                    structure=False, **kw)
    elif pid == 'C03':
        r = explore(fam, kind, impl, sizes, uni, vals, rec, rng,
                    judge='contents', structure=True, **kw)
    elif pid == 'C02':
        from .props import c02

        def on_state(ls, w, path):
            ls.g.universe = list(uni)
            c02.check_container(fam, kind, impl, ls, rng, rec,
                                spec['tier'] == 'quick')
            rec.ev(impl + ':explore:state-queried')
        r = explore(fam, kind, impl, sizes, uni, vals, rec, rng,
                    judge='contents', structure=False, on_state=on_state,
                    **kw)
    elif pid == 'C06':
        import copy
        import pickle
        other = 'py' if impl == 'c' else 'c'
        from .props import c06

        def on_state(ls, w, path):
            # every reachable state through pickle (own and the other
            # implementation's classes), deepcopy and a fresh __setstate__
            rec.ev(impl + ':explore:state-round-tripped')
            want = contents(ls.c, is_mapping)
            d = dict(family=fam.name, kind=kind, impl=impl, sizes=sizes,
                     path=[brief_(x) for x in path[-40:]],
                     path_len=len(path), shape=repr(w.shape)[:200])
            f22 = {'finding': 'F22'} if w.inline_nonroot else {}
            clones = []
            try:
                data = pickle.dumps(ls.c, 3)
                clones.append(('pickle', pickle.loads(data)))
                clones.append(('pickle->' + other,
                               c06.loads_as_py(data) if impl == 'c'
                               else pickle.loads(data)))
                clones.append(('deepcopy', copy.deepcopy(ls.c)))
            except Exception as e:
                rec.violation('round-trip-raised', detail='%s: %s' % (
                    type(e).__name__, e), **dict(d, **f22))
                return
            for how, cl in clones:
                rec.evaluations += 1
                try:
                    got = contents(cl, is_mapping)
                    errs = hist.structural_checks(cl, is_mapping)[0]
                except Exception as e:
                    got, errs = None, [('raised', '%s: %s' % (
                        type(e).__name__, e))]
                if errs or not eq(got, want):
                    rec.violation('clone-damaged', how=how,
                                  errors=errs[:3], observed=brief_(got),
                                  **dict(d, **f22))
                    return
        r = explore(fam, kind, impl, sizes, uni, vals, rec, rng,
                    judge='contents', structure=False, on_state=on_state,
                    **kw)
    elif pid == 'C09':
        import pickle
        from .props import c06

        def on_pair(ls, ls2, path):
            rec.ev('explore:pairs')
            k1, w1 = state_key(ls.c, is_mapping, True)
            k2, w2 = state_key(ls2.c, is_mapping, True)
            d = dict(family=fam.name, kind=kind, sizes=sizes,
                     path=[brief_(x) for x in path[-40:]],
                     path_len=len(path))
            if k1 != k2:
                rec.violation('explore-shape-differs', c_shape=k1[0],
                              py_shape=k2[0], c_leaves=k1[1][:300],
                              py_leaves=k2[1][:300], c_seps=k1[2][:200],
                              py_seps=k2[2][:200], **d)
                return False
            if not eq(contents(ls.c, is_mapping),
                      contents(ls2.c, is_mapping)):
                rec.violation('explore-contents-differ', **d)
                return False
            a, b = pickle.dumps(ls.c, 3), pickle.dumps(ls2.c, 3)
            if a != b:
                tag = None
                if c06.dumps_nomemo(ls.c, 3) == c06.dumps_nomemo(ls2.c, 3):
                    tag = 'F13'
                rec.violation('explore-pickles-differ', memo_only=bool(tag),
                              **dict(d, **({'finding': tag} if tag else {})))
                if not tag:
                    return False
            return True
        r = explore(fam, kind, 'c', sizes, uni, vals, rec, rng,
                    judge='contents', structure=False, twin_impl='py',
                    on_pair=on_pair, **kw)
    else:
        raise ValueError(pid)
    rec.sample(dict(explore=spec['label'], universe=[brief_(k) for k in uni],
                    **r), limit=4)
    if not r['closed']:
        rec.ev('explore:frontier-not-exhausted')


def brief_(x):
    from .harness import brief
    return brief(x, 60)
