"""Workload generators (DESIGN 3.4): histories with shape-adversarial keys."""


class OperandBoom(Exception):
    """Raised by a failing operand (an iterator / items() source that breaks
    off half-way): user code failing inside a bulk operation."""


class FailingItems:
    """update() source: items() yields the first k pairs, then raises."""

    def __init__(self, pairs, k):
        self.pairs, self.k = list(pairs), k

    def items(self):
        for i, p in enumerate(self.pairs):
            if i == self.k:
                raise OperandBoom(i)
            yield p
        if self.k >= len(self.pairs):
            raise OperandBoom(len(self.pairs))


def failing_iter(keys, k):
    for i, x in enumerate(keys):
        if i == k:
            raise OperandBoom(i)
        yield x
    if k >= len(keys):
        raise OperandBoom(len(keys))

from . import walker
from .families import sort_keys

NODE_SIZES = [(2, 2), (2, 3), (3, 2), (3, 3), (4, 4), (2, 4), (4, 2)]


class HistoryGen:
    """Produces the next (op, args) for a container, looking at its current
    shape (through the walker) to pick adversarial keys."""

    def __init__(self, fam, kind, rng, universe=None, values=None,
                 adversarial=0.35, read_ops=True):
        self.fam = fam
        self.kind = kind
        self.rng = rng
        self.is_mapping = kind in ('BTree', 'Bucket')
        self.is_tree = kind in ('BTree', 'TreeSet')
        self.universe = universe or fam.key_universe(rng)
        self.values = values or fam.values(rng)
        self.adversarial = adversarial
        self.read_ops = read_ops
        self.phase = 'grow'
        self.step = 0
        self.phase_len = rng.randint(15, 40)

    # -- phases -----------------------------------------------------------
    def _advance_phase(self):
        self.step += 1
        if self.step >= self.phase_len:
            self.step = 0
            self.phase_len = self.rng.randint(10, 40)
            self.phase = self.rng.choice(
                {'grow': ['churn', 'shrink', 'shrink'],
                 'churn': ['shrink', 'grow', 'clear'],
                 'shrink': ['grow', 'grow', 'clear', 'churn'],
                 'clear': ['grow']}[self.phase])

    # -- key choice -------------------------------------------------------
    def adversarial_key(self, walk, present, want_present):
        """A key chosen from the current shape; None if nothing applies."""
        rng = self.rng
        if walk is None or not walk.leaf_keys:
            return None
        leaves = walk.leaf_keys
        cands = []
        if want_present:
            # minimum of a non-first leaf -> separator refresh
            for lk in leaves[1:]:
                cands.append(lk[0])
            # sole key of a leaf -> unlink (first / middle / last)
            for lk in leaves:
                if len(lk) == 1:
                    cands += [lk[0]] * 3
            # last key of a leaf
            for lk in leaves:
                cands.append(lk[-1])
            # overall min / max
            cands += [leaves[0][0], leaves[-1][-1]]
        else:
            uni = [k for k in self.universe if k not in present]
            if not uni:
                return None
            su = sort_keys(uni)
            # key in the gap after a leaf's last key / before next leaf min
            from .model import klt
            for a, b in zip(leaves, leaves[1:]):
                gap = [k for k in su if klt(a[-1], k) and klt(k, b[0])]
                cands += gap[:1] + gap[-1:]
            # keys equal to a stale separator (deleted earlier)
            for s in walk.separators:
                if s not in present and s in self.universe:
                    cands += [s] * 2
            # below everything / above everything
            cands += [su[0], su[-1]]
            # into a full leaf -> split
            mls = getattr(self, 'max_leaf', None)
            if mls:
                for lk in leaves:
                    if len(lk) >= mls:
                        ins = [k for k in su if klt(lk[0], k) and
                               klt(k, lk[-1])]
                        cands += ins[:2]
            cands = [k for k in cands if k not in present]
        if not cands:
            return None
        return rng.choice(cands)

    def pick_key(self, walk, present, want_present):
        rng = self.rng
        if rng.random() < self.adversarial:
            try:
                k = self.adversarial_key(walk, present, want_present)
            except TypeError:
                k = None   # keys of mixed types got stored (object keys)
            if k is not None:
                return k
        if want_present and present:
            return rng.choice(present)
        return rng.choice(self.universe)

    # -- operations -------------------------------------------------------
    exclude = ()

    def next_op(self, walk, present):
        for _ in range(20):
            r = self._next_op(walk, present)
            if r[0] not in self.exclude:
                return r
        return ('len', ())

    def _next_op(self, walk, present):
        """present: list of keys currently stored (model order)."""
        rng = self.rng
        self._advance_phase()
        ph = self.phase
        r = rng.random()
        if ph == 'clear':
            self.phase = 'grow'
            self.step = 0
            return ('clear', ())
        if ph == 'grow':
            p_ins, p_del = 0.70, 0.08
        elif ph == 'shrink':
            p_ins, p_del = 0.08, 0.72
        else:
            p_ins, p_del = 0.35, 0.35
        if not self.read_ops:
            tot = p_ins + p_del
            p_ins, p_del = p_ins / tot, p_del / tot
        if r < p_ins:
            return self._insert_op(walk, present)
        if r < p_ins + p_del:
            return self._delete_op(walk, present)
        return self._read_op(walk, present)

    def _val(self):
        return self.rng.choice(self.values)

    def _insert_op(self, walk, present):
        rng = self.rng
        new = rng.random() < 0.8
        k = self.pick_key(walk, present, want_present=not new)
        if self.is_mapping:
            r = rng.random()
            if r < 0.55:
                return ('setitem', (k, self._val()))
            if r < 0.70 and self.kind == 'BTree':
                return ('insert', (k, self._val()))
            if r < 0.85:
                return ('setdefault', (k, self._val()))
            n = rng.randint(0, 6)
            pairs = [(rng.choice(self.universe), self._val())
                     for _ in range(n)]
            if rng.random() < .06:
                # the container itself / its own items() as the source
                return ('update', ((rng.choice(['SELF', 'SELFITEMS']), []),))
            if rng.random() < .12:
                # the source breaks off half-way: the pairs before the
                # failure are in, the exception reaches the caller
                return ('update', (('FAILMAP', (pairs, rng.randint(
                    0, len(pairs)))),))
            # (no one-shot iterator of pairs here: Interfaces.py documents
            # update() for a *sequence* of pairs or an object with items();
            # the C update_from_seq() refuses a bare iterator)
            return ('update', ((rng.choice(['DICT', 'PAIRS', 'MAP']),
                                pairs),))
        r = rng.random()
        if r < 0.6:
            return ('add', (k,))
        if r < 0.7:
            return ('sinsert', (k,))
        if r < 0.85:
            ks = [rng.choice(self.universe) for _ in range(rng.randint(0, 6))]
            if rng.random() < .12:
                return (rng.choice(['supdate', 'ior']),
                        (('FAILITER', (ks, rng.randint(0, len(ks)))),))
            return ('supdate', ((rng.choice(['LIST', 'SET', 'TUPLE', 'ITER',
                                             'GEN']), ks),))
        if r < 0.93:
            ks = [rng.choice(self.universe) for _ in range(rng.randint(0, 6))]
            if rng.random() < .08:
                # the container's own (lazy) key sequence as the operand
                return (rng.choice(['ior', 'iand']), (('SELFKEYS', []),))
            return ('ior', ((rng.choice(['LIST', 'SET', 'SELF', 'TREESET',
                                         'ITER', 'GEN']), ks),))
        ks = list(dict.fromkeys(
            rng.choice(self.universe) for _ in range(rng.randint(0, 8))))
        return ('ixor', ((rng.choice(['LIST', 'SET', 'TREESET', 'ITER',
                                      'GEN']), ks),))

    def _delete_op(self, walk, present):
        rng = self.rng
        hit = rng.random() < 0.85
        k = self.pick_key(walk, present, want_present=hit)
        if self.is_mapping:
            r = rng.random()
            if r < 0.5:
                return ('delitem', (k,))
            if r < 0.7:
                return ('pop', (k,))
            if r < 0.85:
                return ('popd', (k, self._val()))
            if r < 0.97:
                return ('popitem', ())
            return ('clear', ()) if rng.random() < .2 else ('delitem', (k,))
        r = rng.random()
        if r < 0.4:
            return ('remove', (k,))
        if r < 0.65:
            return ('discard', (k,))
        if r < 0.8:
            return ('spop', ())
        ks = [rng.choice(self.universe) for _ in range(rng.randint(0, 5))]
        if present and rng.random() < .6:
            ks += [self.pick_key(walk, present, True)
                   for _ in range(rng.randint(1, 3))]
        if r < 0.9:
            return ('isub', ((rng.choice(['LIST', 'SET', 'TREESET', 'ITER',
                                          'GEN']), ks),))
        if r < 0.97:
            keep = [k for k in present if rng.random() < .7] + ks[:2]
            if rng.random() < .3:
                # repeated keys in the operand (multiplicity must not count)
                keep = keep + [rng.choice(keep) for _ in range(
                    rng.randint(1, 3))] if keep else keep
                rng.shuffle(keep)
            return ('iand', ((rng.choice(['LIST', 'SET', 'TREESET', 'ITER',
                                          'GEN']), keep),))
        return (rng.choice(['isub', 'ixor', 'iand']), (('SELF', []),))

    def _read_op(self, walk, present):
        rng = self.rng
        k = self.pick_key(walk, present, want_present=rng.random() < 0.6)
        if self.is_mapping:
            op = rng.choice(['get', 'getd', 'getitem', 'contains', 'has_key',
                             'len', 'bool', 'iter', 'minKey', 'maxKey'])
            if op == 'getd':
                return (op, (k, self._val()))
        else:
            op = rng.choice(['contains', 'has_key', 'len', 'bool', 'iter',
                             'minKey', 'maxKey', 'isdisjoint'] + (
                                 ['sindex'] if self.kind == 'Set' else []))
            if op == 'sindex':
                n = len(present)
                return (op, (rng.randint(-n - 2, n + 1),))
            if op == 'isdisjoint':
                ks = [rng.choice(self.universe)
                      for _ in range(rng.randint(0, 3))]
                return (op, ((rng.choice(['LIST', 'ITER', 'SET', 'TREESET']),
                              ks),))
        if op in ('len', 'bool', 'iter'):
            return (op, ())
        if op in ('minKey', 'maxKey'):
            return (op, ()) if rng.random() < .3 else (op, (k,))
        return (op, (k,))


def materialize(arg, fam, impl, target, model_side):
    """Turn a tagged operand into a real object (for the container under test)
    or a plain Python equivalent (for the model)."""
    if not (isinstance(arg, tuple) and len(arg) == 2 and
            isinstance(arg[0], str) and arg[0].isupper()):
        return arg
    tag, payload = arg
    if tag == 'SELF':
        return target
    if tag == 'SELFKEYS':
        return target.keys() if not model_side else list(
            target.sorted_keys())
    if tag == 'SELFITEMS':
        return target.items() if not model_side else list(
            target.sorted_items())
    if tag == 'DICT':
        return dict(payload)
    if tag == 'PAIRS':
        return list(payload)
    if tag == 'MAP':
        if model_side:
            return dict(payload)
        b = fam.cls('Bucket', impl)()
        for k, v in payload:
            b[k] = v
        return b
    if tag == 'LIST':
        return list(payload)
    if tag == 'FAILMAP':
        return FailingItems(payload[0], payload[1])
    if tag == 'FAILITER':
        return failing_iter(list(payload[0]), payload[1])
    if tag in ('ITER', 'GEN', 'ITERPAIRS'):
        # one-shot operands: consumed by the first pass over them
        if model_side:
            return list(payload)
        if tag == 'GEN':
            return (x for x in list(payload))
        return iter(list(payload))
    if tag == 'TUPLE':
        return tuple(payload)
    if tag in ('SET', 'TREESET'):
        if model_side:
            return list(dict.fromkeys(payload))
        s = fam.cls('Set' if tag == 'SET' else 'TreeSet', impl)()
        s.update(payload)
        return s
    raise AssertionError(tag)
