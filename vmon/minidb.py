"""MiniDB: a small recording data manager on the real persistent.PickleCache
(DESIGN 3.5).  It implements the documented IPersistentDataManager surface
that cPersistence.c and BTrees._base call (setstate, register, readCurrent,
oldstate) plus optimistic commit with conflict resolution done the way ZODB
does it (same pickling order, same PersistentReference contract)."""
import importlib
import io
import pickle
import struct

from persistent import Persistent, PickleCache

Z64 = b'\0' * 8


def p64(n):
    return struct.pack('>Q', n)


def u64(b):
    return struct.unpack('>Q', b)[0]


class DMBoom(Exception):
    """Raised by the data manager itself when a fault is armed (a refused
    read dependency: what a data manager does when the transaction is
    already doomed)."""


class ConflictError(Exception):
    def __init__(self, kind, oid=None, reason=None, detail=None):
        Exception.__init__(self, kind, oid, reason, detail)
        self.kind = kind          # 'write' | 'read'
        self.oid = oid
        self.reason = reason      # BTreesConflictError.reason or None
        self.detail = detail


class PersistentReference:
    """Stand-in for a persistent sub-object during conflict resolution.
    ZODB's contract (ZODB.ConflictResolution.PersistentReference): equal to
    a reference to the same object, and EVERY other comparison - also == and
    != with a different reference or with anything else - raises ValueError
    ("can't reliably compare against different PersistentReferences")."""
    __slots__ = ('oid', 'cls')

    def __init__(self, oid, cls):
        self.oid = oid
        self.cls = cls

    def _same(self, other):
        if self is other or (isinstance(other, PersistentReference) and
                             self.oid == other.oid):
            return True
        raise ValueError("can't reliably compare against different "
                         "PersistentReferences")

    def __eq__(self, other):
        return self._same(other)

    def __ne__(self, other):
        return not self._same(other)

    def __hash__(self):
        return hash(self.oid)

    def _bad(self, other):
        self._same(other)
        return False

    def _bad_eq(self, other):
        self._same(other)
        return True

    __lt__ = __gt__ = _bad
    __le__ = __ge__ = _bad_eq

    def __repr__(self):
        return 'PR(%d)' % u64(self.oid)


class Storage:
    def __init__(self):
        self.data = {}      # oid -> [(tid, clsname, state_bytes)]
        self.tid = 0
        self._oid = 0
        self.writes_log = []   # per commit: list of oids written

    def new_oid(self):
        self._oid += 1
        return p64(self._oid)

    def current(self, oid):
        return self.data[oid][-1]

    def current_tid(self, oid):
        recs = self.data.get(oid)
        return recs[-1][0] if recs else None

    def load_serial(self, oid, tid):
        for rec in self.data[oid]:
            if rec[0] == tid:
                return rec
        raise KeyError((oid, tid))


def class_name(obj):
    """The name a record is stored under: what the object *says* its class
    is (the Python implementation reports the C class here)."""
    c = obj.__class__
    return (c.__module__, c.__name__)


def resolve_class(clsname, impl):
    mod = importlib.import_module(clsname[0])
    name = clsname[1]
    if name.endswith('Py'):
        name = name[:-2]
    if impl == 'py':
        c = getattr(mod, name + 'Py', None)
        if c is not None:
            return c
    return getattr(mod, name)


class Connection:
    def __init__(self, storage, impl='c', order='zodb'):
        self.storage = storage
        self.impl = impl
        self.order = order
        self.cache = PickleCache(self)
        self.registered = []
        self.read_current = {}
        self.added = {}          # oid -> obj, never committed yet
        self.events = []
        self.op_index = 0
        self.log_events = True
        self.loads = 0
        self.last_resolved = []

    # ---- jar protocol ----------------------------------------------------
    # data-manager faults around loads (set to n > 0):
    #   fail_setstate     the n-th following setstate() call raises DMBoom
    #                     before it touches the object (what a data manager
    #                     does for a read conflict, a lost storage, a closed
    #                     connection)
    #   sweep_at_setstate the n-th following setstate() call first
    #                     deactivates every other cached object (a cache
    #                     sweep while an operation is in progress: pinned
    #                     and changed objects refuse, the rest become ghosts)
    fail_setstate = 0
    sweep_at_setstate = 0
    sweep_leaves_only = False     # the in-load sweep spares interior nodes
    loads_refused = 0
    incall_sweeps = 0

    def setstate(self, obj):
        if self.sweep_at_setstate:
            self.sweep_at_setstate -= 1
            if self.sweep_at_setstate == 0:
                self.incall_sweeps += 1
                o = None
                for _oid, o in list(self.cache.items()):
                    if o is obj:
                        continue
                    if self.sweep_leaves_only:
                        n = type(o).__name__.replace('Py', '')
                        if n.endswith('TreeSet') or not n.endswith(
                                ('Bucket', 'Set')):
                            continue
                    o._p_deactivate()
                del o
        if self.fail_setstate:
            self.fail_setstate -= 1
            if self.fail_setstate == 0:
                self.loads_refused += 1
                raise DMBoom('load refused')
        oid = obj._p_oid
        tid, clsname, data = self.storage.current(oid)
        state = self._unpickle_state(data)
        if self.log_events:
            self.events.append((self.op_index, 'setstate', oid))
        self.loads += 1
        obj.__setstate__(state)
        obj._p_serial = p64(tid)

    # set to n > 0: the n-th following register() call raises DMBoom (what a
    # data manager does when its transaction can no longer be joined: a
    # failed commit that was not aborted yet, a closed connection)
    fail_register = 0

    def register(self, obj):
        if self.fail_register:
            self.fail_register -= 1
            if self.fail_register == 0:
                self.registrations_refused = getattr(
                    self, 'registrations_refused', 0) + 1
                raise DMBoom('register refused')
        if self.log_events:
            self.events.append((self.op_index, 'register', obj._p_oid))
        if not any(o is obj for o in self.registered):
            self.registered.append(obj)

    # set to n > 0: the n-th following readCurrent() call raises DMBoom
    fail_read_current = 0

    def readCurrent(self, obj):
        if self.fail_read_current:
            self.fail_read_current -= 1
            if self.fail_read_current == 0:
                self.read_current_refused = getattr(
                    self, 'read_current_refused', 0) + 1
                raise DMBoom('readCurrent refused')
        assert obj._p_jar is self
        oid = obj._p_oid
        assert oid is not None
        if self.log_events:
            self.events.append((self.op_index, 'readCurrent', oid))
        if obj._p_serial != Z64:
            self.read_current.setdefault(oid, obj._p_serial)

    def oldstate(self, obj, tid):
        rec = self.storage.load_serial(obj._p_oid, u64(tid))
        return self._unpickle_state(rec[2])

    # ---- object access ---------------------------------------------------
    def get(self, oid, clsname=None):
        obj = self.cache.get(oid)
        if obj is not None:
            return obj
        if clsname is None:
            clsname = self.storage.current(oid)[1]
        cls = resolve_class(clsname, self.impl)
        obj = cls.__new__(cls)
        self.cache.new_ghost(oid, obj)
        return obj

    def add(self, obj):
        assert obj._p_jar is None and obj._p_oid is None
        oid = self.storage.new_oid()
        obj._p_jar = self
        obj._p_oid = oid
        self.added[oid] = obj
        self.register(obj)
        return oid

    # ---- pickling --------------------------------------------------------
    def _unpickle_state(self, data):
        up = pickle.Unpickler(io.BytesIO(data))
        up.persistent_load = lambda ref: self.get(ref[0], ref[1])
        return up.load()

    def _serialize(self, obj, stack):
        conn = self

        class P(pickle.Pickler):
            def persistent_id(self, o):
                if not isinstance(o, Persistent) or isinstance(o, type):
                    return None
                oid = o._p_oid
                if oid is None:
                    oid = conn.storage.new_oid()
                    o._p_jar = conn
                    o._p_oid = oid
                    conn.added[oid] = o
                    stack.append(o)
                elif o._p_jar is not conn:
                    raise ValueError('foreign persistent reference')
                return (oid, class_name(o))

        f = io.BytesIO()
        P(f, 3).dump(obj.__getstate__())
        return f.getvalue()

    # ---- transaction boundaries -----------------------------------------
    def commit(self):
        st = self.storage
        writes = {}      # oid -> [clsname, data, base_tid, obj]
        order = []
        creating = set()
        log = self.log_events
        self.log_events = False
        try:
            try:
                for obj in list(self.registered):
                    oid = obj._p_oid
                    if oid in creating or not obj._p_changed:
                        if oid in self.added and oid not in creating \
                                and oid not in writes:
                            pass    # an added object is always stored
                        else:
                            continue
                    stack = [obj]
                    while stack:
                        o = stack.pop() if self.order == 'zodb' \
                            else stack.pop(0)
                        data = self._serialize(o, stack)
                        ooid = o._p_oid
                        base = u64(o._p_serial)
                        if ooid not in writes:
                            order.append(ooid)
                        writes[ooid] = [class_name(o), data, base, o]
                        if ooid in self.added:
                            creating.add(ooid)
                # conflict detection / resolution
                resolved = []
                for oid in order:
                    w = writes[oid]
                    cur = st.current_tid(oid)
                    if cur is None:
                        continue
                    if cur != w[2]:
                        w[1] = self._resolve(oid, w)
                        resolved.append(oid)
                for oid, serial in self.read_current.items():
                    if oid in writes:
                        continue
                    if st.current_tid(oid) != u64(serial):
                        raise ConflictError('read', oid)
            except ConflictError:
                self.abort()
                raise
            # apply
            st.tid += 1
            tid = st.tid
            for oid in order:
                clsname, data, base, o = writes[oid]
                st.data.setdefault(oid, []).append((tid, clsname, data))
            st.writes_log.append(list(order))
            for oid in order:
                o = writes[oid][3]
                if oid in self.added:
                    del self.added[oid]
                    self.cache[oid] = o
                o._p_changed = False
                o._p_serial = p64(tid)
            for oid in resolved:
                self.cache.invalidate(oid)
            self.last_resolved = resolved
            self.last_written = list(order)
            self.registered = []
            self.read_current = {}
            return tid
        finally:
            self.log_events = log

    def _resolve(self, oid, w):
        clsname, newdata, base, obj = w
        st = self.storage
        stubs = {}

        def load(data):
            up = pickle.Unpickler(io.BytesIO(data))

            def pl(ref):
                r = stubs.get(ref[0])
                if r is None:
                    r = stubs[ref[0]] = PersistentReference(ref[0], ref[1])
                return r
            up.persistent_load = pl
            return up.load()

        try:
            old = load(st.load_serial(oid, base)[2])
            com = load(st.current(oid)[2])
            new = load(newdata)
        except KeyError:
            raise ConflictError('write', oid, detail='no old state')
        cls = resolve_class(clsname, self.impl)
        inst = cls.__new__(cls)
        resolve = getattr(inst, '_p_resolveConflict', None)
        if resolve is None:
            raise ConflictError('write', oid, detail='no resolver')
        try:
            result = resolve(old, com, new)
        except Exception as e:
            raise ConflictError('write', oid,
                                reason=getattr(e, 'reason', None),
                                detail='%s: %s' % (type(e).__name__, e))

        class P(pickle.Pickler):
            def persistent_id(self, o):
                if isinstance(o, PersistentReference):
                    return (o.oid, o.cls)
                return None
        f = io.BytesIO()
        P(f, 3).dump(result)
        return f.getvalue()

    def abort(self):
        log = self.log_events
        self.log_events = False
        try:
            for obj in self.registered:
                oid = obj._p_oid
                if oid in self.added:
                    continue
                obj._p_invalidate()
            for oid, obj in list(self.added.items()):
                try:
                    del obj._p_oid
                    del obj._p_jar
                except Exception:
                    pass
            self.added = {}
            self.registered = []
            self.read_current = {}
        finally:
            self.log_events = log

    # ---- helpers for monitors -------------------------------------------
    def cached_objects(self):
        return [o for _, o in self.cache.items()]

    def sticky_objects(self):
        out = []
        for oid, o in self.cache.items():
            try:
                if o._p_sticky:
                    out.append(o)
            except AttributeError:
                pass
        return out


def open_root(storage, impl, root_oid):
    conn = Connection(storage, impl)
    return conn, conn.get(root_oid)


def embedded_but_leaf_has_oid(conn, tree):
    """Finding F34's condition: the stored record of `tree` is in the
    embedded single-leaf form while, in the writer's memory, that leaf has
    meanwhile got an oid of its own (it was reached a second time, e.g.
    through the `next` pointer of an emptied bucket written in the same
    commit).  From then on changes of the leaf register only the leaf, whose
    record the tree record does not reference."""
    try:
        oid = tree._p_oid
        if oid is None or oid not in conn.storage.data:
            return False
        data = conn.storage.current(oid)[2]
        up = pickle.Unpickler(io.BytesIO(data))
        up.persistent_load = lambda ref: ('REF', ref[0])
        st = up.load()
        if st is None or len(st) != 1:
            return False
        live = tree.__getstate__()
        return live is not None and len(live) == 2
    except Exception:
        return False


class _BareCache:
    """What C05 asks of a connection's cache, for a jar that has none."""

    def __init__(self, jar):
        self.jar = jar

    def minimize(self):
        for o in list(self.jar.objs.values()):
            o._p_deactivate()

    def items(self):
        return list(self.jar.objs.items())


class BareJar:
    """A data manager WITHOUT a persistent.PickleCache: objects get _p_jar
    and _p_oid assigned by hand and the jar keeps them alive itself (the
    configuration of the package's own unit tests, and of any application
    that manages persistent objects without ZODB).  persistent then takes
    another path when an object becomes a ghost: with no cache attached the
    C base class only flips the state - it does not release the object's
    __slots__ - so whatever an overridden _p_deactivate() / _p_invalidate()
    does to the contents is all that happens to them.

    Same surface as Connection as far as the eviction monitors use it.
    commit() stores the state of every changed or new node (oids are handed
    to all new nodes BEFORE any state is taken, so no node is ever written in
    the embedded form while it has a record of its own)."""

    impl = None
    fail_setstate = 0
    sweep_at_setstate = 0
    sweep_leaves_only = False
    fail_read_current = 0
    incall_sweeps = 0
    loads_refused = 0

    def __init__(self, impl='c'):
        self.impl = impl
        self.store = {}
        self.objs = {}
        self.n = 0
        self.loads = 0
        self.op_index = 0
        self.registered = []
        self.roots = []
        self.cache = _BareCache(self)
        self.log_events = False

    # ---- jar protocol ----------------------------------------------------
    def setstate(self, obj):
        if self.fail_setstate:
            self.fail_setstate -= 1
            if self.fail_setstate == 0:
                self.loads_refused += 1
                raise DMBoom('load refused')
        self.loads += 1
        up = pickle.Unpickler(io.BytesIO(self.store[obj._p_oid]))
        up.persistent_load = lambda oid: self.objs[oid]
        obj.__setstate__(up.load())

    def register(self, obj):
        if not any(o is obj for o in self.registered):
            self.registered.append(obj)

    def readCurrent(self, obj):
        if self.fail_read_current:
            self.fail_read_current -= 1
            if self.fail_read_current == 0:
                raise DMBoom('readCurrent refused')

    def oldstate(self, obj, tid):
        up = pickle.Unpickler(io.BytesIO(self.store[obj._p_oid]))
        up.persistent_load = lambda oid: self.objs[oid]
        return up.load()

    # ---- connection surface ----------------------------------------------
    def add(self, obj):
        self.roots.append(obj)
        return None

    def _children(self, state, out):
        from persistent import Persistent
        if isinstance(state, Persistent):
            out.append(state)
        elif isinstance(state, (tuple, list)):
            for x in state:
                self._children(x, out)

    def commit(self):
        from persistent import Persistent
        # phase 1: every node reachable from changed / new nodes gets an oid
        todo = list(self.roots) + list(self.registered)
        seen = set()
        live = []
        while todo:
            o = todo.pop()
            if id(o) in seen:
                continue
            seen.add(id(o))
            if o._p_oid is not None and o._p_changed is None:
                continue        # a ghost: stored and unchanged
            if o._p_oid is None:
                self.n += 1
                o._p_jar = self
                o._p_oid = p64(self.n)
                self.objs[o._p_oid] = o
                o._p_changed = True
            live.append(o)
            kids = []
            self._children(o.__getstate__(), kids)
            todo.extend(kids)
        # phase 2: states of the changed ones
        for o in live:
            if o._p_changed:
                f = io.BytesIO()
                p = pickle.Pickler(f, 3)
                p.persistent_id = lambda x: x._p_oid if isinstance(
                    x, Persistent) else None
                p.dump(o.__getstate__())
                self.store[o._p_oid] = f.getvalue()
                o._p_changed = False
        self.registered = []

    def cached_objects(self):
        return list(self.objs.values())

    def sticky_objects(self):
        out = []
        for o in self.objs.values():
            try:
                if o._p_sticky:
                    out.append(o)
            except AttributeError:
                pass
        return out
