"""Fault injectors (DESIGN 3.6): a totally ordered key class whose six rich
comparisons tick one global counter and either raise (C14) or call back
(in-comparison cache eviction, C05)."""


class CmpBoom(Exception):
    pass


class CmpBoomT(CmpBoom, TypeError):
    """The same fault as a TypeError: what an ordinary failing comparison
    raises ('<' not supported between ...), and what code that translates
    TypeError from a key CONVERSION must not confuse it with."""


class _State:
    count = 0          # comparisons seen since last reset
    fail_at = 0        # raise CmpBoom at this count (0 = never)
    callback = None    # called on every comparison while armed
    armed = False
    fired = 0
    boom = CmpBoom     # class raised at fail_at (CmpBoom or CmpBoomT)


S = _State


def reset():
    S.boom = CmpBoom
    S.count = 0
    S.fail_at = 0
    S.callback = None
    S.armed = False
    S.fired = 0


def arm(fail_at=0, callback=None):
    S.count = 0
    S.fail_at = fail_at
    S.callback = callback
    S.armed = True
    S.fired = 0


def disarm():
    n = S.count
    S.armed = False
    S.fail_at = 0
    S.callback = None
    return n


def _tick():
    if not S.armed:
        return
    S.count += 1
    cb = S.callback
    if cb is not None:
        S.armed = False       # no re-entrancy from inside the callback
        try:
            cb()
        finally:
            S.armed = True
    if S.fail_at and S.count == S.fail_at:
        S.fired += 1
        raise S.boom(S.count)


class FKey:
    """Totally ordered by .n; every comparison goes through _tick()."""
    __slots__ = ('n',)

    def __init__(self, n):
        self.n = n

    def __reduce__(self):
        return (FKey, (self.n,))

    def __repr__(self):
        return 'FKey(%r)' % (self.n,)

    def __hash__(self):
        return hash(self.n)

    def __lt__(self, o):
        _tick()
        return self.n < o.n

    def __gt__(self, o):
        _tick()
        return self.n > o.n

    def __le__(self, o):
        _tick()
        return self.n <= o.n

    def __ge__(self, o):
        _tick()
        return self.n >= o.n

    def __eq__(self, o):
        _tick()
        return isinstance(o, FKey) and self.n == o.n

    def __ne__(self, o):
        _tick()
        return not (isinstance(o, FKey) and self.n == o.n)
