"""Writes /verif/MANIFEST.json from the table below (python -m vmon.manifest)."""
import json
import os
import subprocess

VERIF = os.path.dirname(os.path.dirname(os.path.abspath(__file__)))

BASELINE_OFF = (
    "cd /repo && env -u BTREES_VERIF /venv/bin/python setup.py -q build_ext "
    "--inplace -j 16 && env -u BTREES_VERIF /venv/bin/python -m pytest -ra -q "
    "-p no:cacheprovider --timeout=900 --continue-on-collection-errors")

CHECKS = {
    'C01': dict(
        cat='exploration', ref='5 C01',
        technique='reference-model monitor on the call boundary (lock-step '
                  'sorted-map oracle over generated histories, plus a '
                  'systematic workload: every operation in every reachable '
                  'state of a small key universe)',
        text='Every public call of generated histories (shape-adversarial '
             'keys, node sizes 2..4 and defaults, all 22 families x 4 kinds x '
             'C and Python) is executed in lock-step on the real container '
             'and on an independent reference sorted map; result, exception '
             'class, ordered contents, len, bool and iteration are compared '
             'after every call.  Held = no divergence on the histories run '
             'and every structural transition listed as must-see was '
             'observed; universal quantifiers are sampled.  In addition '
             'vmon/explore.py expands, breadth first and until the frontier '
             'is empty, every distinct state (contents AND internal shape) a '
             'tree can reach over a universe of 6 (thorough: 7-8) keys at '
             'node sizes 2-3 and applies every insert / replace / delete / '
             'pop-smallest / clear in each of them under the same oracle.',
        note='trusted: vmon/model.py (reference map), vmon/walker.py (shape '
             'events); known findings F08, F25, F26 are reported, not '
             'suppressed silently'),
    'C02': dict(
        cat='exploration', ref='5 C02',
        technique='(a third of the trees stored in MiniDB and swept before '
                  'queries) '
                  'reference-model monitor: near-exhaustive bound grid per '
                  'container against list slicing; the same grid in every '
                  'reachable state of a small universe (vmon/explore.py)',
        text='For containers reached by insert/delete histories (thinned '
             'trees, single-child roots, one-key leaves) the range methods, '
             'minKey/maxKey and the lazy sequences (len, +/- index, slices) '
             'are queried over {omitted, None, every present key, every gap, '
             'below, above}^2 x 4 flag combinations and compared with list '
             'slicing on the reference model.',
        note='trusted: vmon/model.py range semantics'),
    'C03': dict(
        cat='exploration', ref='5 C03',
        technique='(every fourth history stored in MiniDB, committed and '
                  'swept between calls) '
                  'structural invariant monitor at quiescent points '
                  '(_check, check(), independent walker after every '
                  'mutating call); systematic workload: every operation in '
                  'every reachable state of a small universe '
                  '(vmon/explore.py, frontier exhausted)',
        text='After every mutating call of generated histories on BTree and '
             'TreeSet (node sizes set on the class and via subclass) the '
             "package's own checkers and an independent walker (chain == "
             'descent, key order, separator intervals, node-size limits) '
             'run.',
        note='trusted: vmon/walker.py'),
    'C04': dict(
        cat='exploration', ref='5 C04, 3.5',
        technique='recording data manager (MiniDB on the real PickleCache): '
                  'commit/abort placed at random points, fresh reader as '
                  'oracle',
        text='Histories are cut into transactions at random points; MiniDB '
             'writes exactly the registered objects plus newly reachable '
             'ones in ZODB order; after every commit a fresh cache '
             '(alternately C and Python classes) must show the writer\'s '
             'contents in a sound tree, after every abort the writer must '
             'show the last committed contents.',
        note='trusted: vmon/minidb.py stands in for a ZODB connection (ZODB '
             'is not installed); known finding F22'),
    'C05': dict(
        cat='exploration', ref='5 C05',
        technique='eviction injection (between calls, inside key '
                  'comparisons, and at the n-th load inside an operation on '
                  'two stored operands, optionally followed by a refused '
                  'load, and between two steps of one iterator / lazy '
                  'sequence) + per-call pin monitor + uncached twin; a third '
                  'of the histories under a jar WITHOUT an object cache '
                  '(minidb.BareJar); ASan build for the in-comparison and '
                  'in-load shards',
        text='A container stored in MiniDB is compared call by call with an '
             'uncached twin while cache sweeps are injected between calls '
             'and from inside key comparisons, and with deliberately '
             'failing calls; after every single call every cached node is '
             'inspected for a leftover pin.  Operations between two stored '
             'containers run with a sweep at a load inside the call and an '
             'optional refused load (same result as unstored twins, or the '
             "data manager's error with operands unchanged).",
        note='trusted: MiniDB; _p_sticky is the observable pin; Python '
             'in-comparison eviction is known finding F16'),
    'C07': dict(
        cat='exploration', ref='5 C07',
        technique='specification monitor: independent three-way-merge spec '
                  'vs C vs Python on generated state triples, incl. reason '
                  'codes',
        text='State triples over small key/value universes (derived edits, '
             'random, empty/None, successor links, multi-leaf tree states, '
             'malformed shapes) are resolved by Bucket, Set, BTree, TreeSet '
             'of both implementations; decision and result are compared '
             'with vmon/mergespec.py and C with Python including the reason '
             'code.',
        note='trusted: vmon/mergespec.py'),
    'C08': dict(
        cat='exploration', ref='5 C08',
        technique='schedule exploration through MiniDB: two (or three) '
                  'transactions, both commit orders, fresh and previously '
                  'used connections, outcome oracle + read-dependency '
                  'event log',
        text='Two connections run short, shape-adversarial transactions on '
             'the same committed tree and commit one after the other with '
             'conflict resolution; the stored tree must be sound and equal '
             'to the serial result or the disjoint merge, or the second '
             'commit must conflict; every real write must have declared '
             'the stored interior nodes on its descent path, reads none.',
        note='trusted: MiniDB optimistic commit, PersistentReference '
             'contract, read-current check'),
    'C06': dict(
        cat='exploration', ref='5 C06',
        technique='round-trip monitor (getstate/setstate, pickle 0-5, copy, '
                  'constructor copy, cross-implementation loads, byte '
                  'comparison of C and Python pickles, record-graph '
                  'comparison through MiniDB); every reachable state of a '
                  'small universe through pickle / deepcopy '
                  '(vmon/explore.py)',
        text='Containers reached by generated histories are round-tripped '
             'through __getstate__/__setstate__, pickle protocols 0-5, copy '
             'and deepcopy; C pickles are loaded as Python classes and vice '
             'versa; the C and Python pickles of the same history must be '
             'byte-identical and, committed through MiniDB at the same '
             'points, produce the same record graph and be readable by the '
             'other implementation; every clone must be sound and follow '
             'the reference model through 20 further calls.',
        note='trusted: reference model, walker, MiniDB; known findings F13, '
             'F22, F24, F34'),
    'C09': dict(
        cat='exploration', ref='5 C09',
        technique='(every third history with both containers stored and '
                  'swept) '
                  'differential monitor: paired execution of C and Python '
                  'classes with hostile arguments, lazy-view walks, '
                  'stale-separator trees; shape and pickle comparison; '
                  'systematic workload: both implementations side by side '
                  'through every operation in every reachable state of a '
                  'small universe (vmon/explore.py)',
        text='The same generated history, with about a quarter of the '
             'arguments replaced by boundary and wrong-typed data, is '
             'applied to XX<Kind> and XX<Kind>Py; results, exception '
             'classes and contents are compared after every call, tree '
             'shape and pickle bytes every few calls; for data outside the '
             'domain lookups must report absence and writes raise TypeError '
             'and change nothing, in both.',
        note='trusted: families.key_ok/val_ok as the statement of each '
             'domain; known divergences F08 F13 F14 F15 F25 F26 F28 F30 are '
             'reported by mechanism'),
    'C10': dict(
        cat='exploration', ref='5 C10',
        technique='oracle monitor: Python set algebra on the keys, result '
                  'kind / values / operand-unchanged checks, small and big '
                  '(300-1300 keys) universes; ASan build for the C '
                  'functions',
        text='Module functions, operators and in-place forms are applied to '
             'operand pairs of every kind (containers of all shapes, plain '
             'iterables incl. unsorted / duplicate-carrying / one-shot ones, '
             'lazy views, containers of the other implementation, None) and '
             'compared with Python set algebra.',
        note='known findings F23 (duplicates inside an iterable operand), '
             'F26 (None in a sorted-copy operand)'),
    'C11': dict(
        cat='exploration', ref='5 C11',
        technique='oracle monitor: sorted(set(keys)) over size classes on '
                  'both sides of the sort-algorithm switches, operands of '
                  'every kind incl. lazy views, subclass instances and '
                  'containers of another family; ASan+UBSan build',
        text='multiunion over 0..12 operands of every kind, total sizes 0 to '
             '20000 on both sides of the insertion-sort / quicksort / '
             'radix-sort switches, keys over the whole range incl. top-bit '
             'and extreme values and byte-window patterns, for the 16 '
             'integer-key families in C (also under ASan) and Python; the '
             'result must be the exact sorted union and behave as a Set.',
        note='trusted: sorted(set(...))'),
    'C12': dict(
        cat='exploration', ref='5 C12',
        technique='oracle monitor: the IIMerge docstrings written out with '
                  'exact rational arithmetic',
        text='weightedUnion / weightedIntersection for the 16 '
             'numeric-valued families over all set/mapping operand '
             'combinations, None operands, default and explicit weights; '
             'weight, result kind, keys and every value are compared with '
             'the documented formula (cases drawn so that the exact result '
             'is representable).',
        note='overflow behaviour is not specified by the property and is '
             'not requested'),
    'C13': dict(
        cat='exploration', ref='5 C13',
        technique='oracle monitor: independent representability predicate '
                  'x every writing entry point x boundary/hostile datum',
        text='Every boundary or hostile datum is offered as key and as '
             'value through item assignment, insert, setdefault, update, '
             'constructors, add, Set.update and __setstate__, on empty and '
             'populated containers of every family, kind and '
             'implementation; representable data must read back in normal '
             'form, anything else must raise TypeError and change nothing, '
             'and its lookup must report absence.',
        note='trusted: families.key_ok/val_ok/norm_val; known findings F08, '
             'F15, F17'),
    'C14': dict(
        cat='fault_enumeration', ref='5 C14',
        technique='fault enumeration at run time: fail the n-th key '
                  'comparison of every operation (counter in FKey), '
                  'structural + contents + reference-count-ledger oracle',
        text='For containers reached by histories with instrumented keys, '
             'each operation kind is run once to count its comparisons and '
             'then re-run on a rebuilt container failing the n-th one, for '
             'all n (sampled above 12 per operation in the quick tier); the '
             'exception must reach the caller, the container stay sound '
             'with previous or completed contents, reference counts balance '
             'and later operations behave.',
        note='enumeration is complete per (container, operation) in the '
             'thorough tier; containers are sampled'),
    'C15': dict(
        cat='exploration', ref='5 C15',
        technique='interleaving monitor: iterator / lazy-sequence steps vs '
                  'cursor-aimed mutations (also aimed at cursors that have '
                  'not been used yet), step-outcome oracle, crash '
                  'detection, ASan+UBSan build',
        text='Live iterators and lazy sequences are stepped while the '
             'container is mutated with operations aimed at the cursor '
             '(unlink / split the leaf it is parked on, delete the entry '
             'under it, clear); each step must yield an entry, stop, or '
             'raise RuntimeError/IndexError; afterwards the container must '
             'be sound and equal the model; also under ASan.',
        note='a dead worker counts as a crash of the library'),
    'C16': dict(
        cat='exploration', ref='5 C16, 3.7',
        technique='finalizer re-entrancy monitor (__del__ / weakref '
                  'callbacks of stored objects that look at or change their '
                  'container inside the releasing operation; ASan build with '
                  'assert() off) + node census after destruction + '
                  'valgrind memcheck slice + garbage-cycle collection + '
                  'reference-count ledger at every quiescent point '
                  '(differential ledger over histories, absolute ledger '
                  'over operations between stored operands with in-load '
                  'sweeps and refused loads) + ASan/UBSan build with '
                  'PYTHONMALLOC=malloc',
        text='After every operation of histories on the object-keyed / '
             'object-valued C classes (incl. error paths, failing '
             'comparisons, set algebra, merges, iterators dropped half-way, '
             'pickling, commit / eviction / reload) the change of '
             'sys.getrefcount of every tracked object must equal the change '
             'of its occurrences in node slots; after destruction every '
             'object is back at its baseline and no node object of the '
             'family is left alive; the same workload runs under ASan.  '
             'Keys and values whose last reference is the container\'s and '
             'whose finalizer inspects (or removes from / inserts into / '
             'clears) that container are released through every releasing '
             'operation (vmon/reentry.py): no crash, no sanitizer report, '
             'sound container with the implied contents afterwards.',
        note='red-zone ASan misses intra-object overflows and reads of '
             'uninitialised memory; known finding F55 (inserting / clearing '
             'finalizers during __setstate__ on a live leaf or during '
             'invalidation) is run in sacrificial processes'),
    'C17': dict(
        cat='fault_enumeration', ref='5 C17, 10',
        technique='(also on stored containers whose ghost loads fail, and '
                  'under valgrind memcheck) '
                  'fault enumeration with the guarded allocation hook: fail '
                  'the n-th BTree_Malloc/BTree_Realloc of every allocating '
                  'operation (incl. the in-place operators with stored, '
                  'evicted operands, deletes on leaves grown past 32 slots '
                  'at default node sizes); ASan build',
        text='Using the BTREES_VERIF countdown hook every allocation of '
             'every allocating operation is failed in turn on containers '
             'reached by histories; the call must raise MemoryError (or, '
             'for the multiunion sort buffer, fall back correctly), the '
             'container stay sound with previous or completed contents, and '
             'a follow-up workload plus destruction behave, also under '
             'ASan.',
        note='only allocations routed through BTree_Malloc/BTree_Realloc and '
             'the radix-sort buffer can be failed'),
    'C18': dict(
        cat='exploration', ref='5 C18',
        technique='tree surgeon + independent walker as oracle: single '
                  'corruptions applied through __setstate__ at every node '
                  'position (rebuilt trees, and in place on leaves and '
                  'interior nodes of live trees)',
        text='Valid trees and their surgeon-rebuilt controls must be '
             'accepted by check() and _check(); for every node position one '
             'corruption per class is applied through __setstate__ and, '
             'whenever the independent walker confirms that it breaks key '
             'order, containment, linking, child kinds or non-emptiness, '
             'check() or _check() must raise AssertionError.',
        note='trusted: vmon/walker.py decides whether a corruption is real'),
    'C19': dict(
        cat='exploration', ref='5 C19',
        technique='oracle monitor: integer arithmetic model for the '
                  'resolution formula and the cell; two-connection '
                  'schedules and long-lived sessions through MiniDB (incl. '
                  'refused registrations, application attributes)',
        text='Length._p_resolveConflict is compared with old + a + b for '
             'integers of every magnitude in both orders; set / change / '
             'call / getstate / setstate / pickle / copy histories follow an '
             'int model (incl. state 0 and subclasses with another '
             'default); two connections change one committed Length in '
             'both commit orders and a fresh reader must see both changes.',
        note='integers are sampled'),
}

NOT_YET = {}


def main():
    props = [json.loads(l) for l in open(os.path.join(VERIF,
                                                      'properties.jsonl'))]
    commits = subprocess.run(
        ['git', '-C', '/repo', 'log', '--format=%h %s'], capture_output=True,
        text=True).stdout.splitlines()
    hook_commits = [c.split()[0] for c in commits if 'verif hook' in c]
    checks = []
    na = []
    for p in props:
        pid = p['id']
        c = CHECKS.get(pid)
        if not c:
            na.append(dict(property_id=pid, reason=NOT_YET.get(
                pid, 'check not built yet in this round (planned, see '
                     'DESIGN.md section 5)')))
            continue
        checks.append(dict(
            property_id=pid,
            quick_cmd='/venv/bin/python -m vmon check %s --tier quick' % pid,
            thorough_cmd='/venv/bin/python -m vmon check %s --tier thorough'
                         % pid,
            evidence_file='/verif/evidence/%s.json' % pid,
            replay_cmd_template='/venv/bin/python -m vmon replay {path}',
            engine='vmon',
            level_claimed=dict(category=c['cat'], text=c['text'],
                               design_ref='DESIGN.md section ' + c['ref']),
            level_note=c['note'],
            technique=c['technique']))
    m = dict(
        version=1,
        setup_cmd='/venv/bin/python -m vmon setup',
        hooks=dict(
            guard='BTREES_VERIF',
            enable='vmon/build.py compiles the 22 extension modules from '
                   "/repo's working tree with -DBTREES_VERIF=1 into "
                   '/verif/.cache/<content-hash>-<variant>/ (setup.py also '
                   'honours BTREES_VERIF=1 in the environment)',
            baseline_off_cmd=BASELINE_OFF,
            source_commits=hook_commits,
            add_only=True),
        engines=[dict(name='vmon', path='/verif/vmon',
                      serves_properties=sorted(CHECKS),
                      kind_free_text='runtime monitors: reference-model / '
                      'specification oracles on the call boundary, '
                      'structural walkers, a recording data manager, fault '
                      'injectors, a reference-count ledger, clang '
                      'ASan+UBSan builds')],
        checks=checks,
        notes='All checks are runtime monitoring of the real code (C '
              'extension rebuilt from the working tree, pure-Python '
              'implementation).  Exit 0 = held on what was observed (known '
              'findings printed as KNOWN-FINDING lines), 1 = VIOLATION, 2 = '
              'INCONCLUSIVE (a must-see event was not observed, a worker '
              'timed out, a build failed).',
        not_applicable=na)
    with open(os.path.join(VERIF, 'MANIFEST.json'), 'w') as fh:
        json.dump(m, fh, indent=1)
    print('MANIFEST.json: %d checks, %d not claimed' % (len(checks), len(na)))


if __name__ == '__main__':
    main()
