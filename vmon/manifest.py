"""Writes /verif/MANIFEST.json from the table below (python -m vmon.manifest)."""
import json
import os
import subprocess

VERIF = os.path.dirname(os.path.dirname(os.path.abspath(__file__)))

BASELINE_OFF = (
    "cd /repo && env -u BTREES_VERIF /venv/bin/python setup.py -q build_ext "
    "--inplace -j 16 && env -u BTREES_VERIF /venv/bin/python -m pytest -ra -q "
    "-p no:cacheprovider --timeout=900 --continue-on-collection-errors")

CHECKS = {
    'C01': dict(
        cat='exploration', ref='5 C01',
        technique='reference-model monitor on the call boundary (lock-step '
                  'sorted-map oracle over generated histories)',
        text='Every public call of generated histories (shape-adversarial '
             'keys, node sizes 2..4 and defaults, all 22 families x 4 kinds x '
             'C and Python) is executed in lock-step on the real container '
             'and on an independent reference sorted map; result, exception '
             'class, ordered contents, len, bool and iteration are compared '
             'after every call.  Held = no divergence on the histories run '
             'and every structural transition listed as must-see was '
             'observed; universal quantifiers are sampled.',
        note='trusted: vmon/model.py (reference map), vmon/walker.py (shape '
             'events); known findings F08, F25, F26 are reported, not '
             'suppressed silently'),
    'C02': dict(
        cat='exploration', ref='5 C02',
        technique='reference-model monitor: near-exhaustive bound grid per '
                  'container against list slicing',
        text='For containers reached by insert/delete histories (thinned '
             'trees, single-child roots, one-key leaves) the range methods, '
             'minKey/maxKey and the lazy sequences (len, +/- index, slices) '
             'are queried over {omitted, None, every present key, every gap, '
             'below, above}^2 x 4 flag combinations and compared with list '
             'slicing on the reference model.',
        note='trusted: vmon/model.py range semantics'),
    'C03': dict(
        cat='exploration', ref='5 C03',
        technique='structural invariant monitor at quiescent points '
                  '(_check, check(), independent walker after every '
                  'mutating call)',
        text='After every mutating call of generated histories on BTree and '
             'TreeSet (node sizes set on the class and via subclass) the '
             "package's own checkers and an independent walker (chain == "
             'descent, key order, separator intervals, node-size limits) '
             'run.',
        note='trusted: vmon/walker.py'),
    'C04': dict(
        cat='exploration', ref='5 C04, 3.5',
        technique='recording data manager (MiniDB on the real PickleCache): '
                  'commit/abort placed at random points, fresh reader as '
                  'oracle',
        text='Histories are cut into transactions at random points; MiniDB '
             'writes exactly the registered objects plus newly reachable '
             'ones in ZODB order; after every commit a fresh cache '
             '(alternately C and Python classes) must show the writer\'s '
             'contents in a sound tree, after every abort the writer must '
             'show the last committed contents.',
        note='trusted: vmon/minidb.py stands in for a ZODB connection (ZODB '
             'is not installed); known finding F22'),
    'C05': dict(
        cat='exploration', ref='5 C05',
        technique='eviction injection (between calls and inside key '
                  'comparisons) + per-call pin monitor + uncached twin; '
                  'ASan build for the in-comparison shards',
        text='A container stored in MiniDB is compared call by call with an '
             'uncached twin while cache sweeps are injected between calls '
             'and from inside key comparisons, and with deliberately '
             'failing calls; after every single call every cached node is '
             'inspected for a leftover pin.',
        note='trusted: MiniDB; _p_sticky is the observable pin; Python '
             'in-comparison eviction is known finding F16'),
    'C07': dict(
        cat='exploration', ref='5 C07',
        technique='specification monitor: independent three-way-merge spec '
                  'vs C vs Python on generated state triples, incl. reason '
                  'codes',
        text='State triples over small key/value universes (derived edits, '
             'random, empty/None, successor links, multi-leaf tree states, '
             'malformed shapes) are resolved by Bucket, Set, BTree, TreeSet '
             'of both implementations; decision and result are compared '
             'with vmon/mergespec.py and C with Python including the reason '
             'code.',
        note='trusted: vmon/mergespec.py'),
    'C08': dict(
        cat='exploration', ref='5 C08',
        technique='schedule exploration through MiniDB: two transactions, '
                  'both commit orders, outcome oracle + read-dependency '
                  'event log',
        text='Two connections run short, shape-adversarial transactions on '
             'the same committed tree and commit one after the other with '
             'conflict resolution; the stored tree must be sound and equal '
             'to the serial result or the disjoint merge, or the second '
             'commit must conflict; every real write must have declared '
             'the stored interior nodes on its descent path, reads none.',
        note='trusted: MiniDB optimistic commit, PersistentReference '
             'contract, read-current check'),
}

NOT_YET = {}


def main():
    props = [json.loads(l) for l in open(os.path.join(VERIF,
                                                      'properties.jsonl'))]
    commits = subprocess.run(
        ['git', '-C', '/repo', 'log', '--format=%h %s'], capture_output=True,
        text=True).stdout.splitlines()
    hook_commits = [c.split()[0] for c in commits if 'verif hook' in c]
    checks = []
    na = []
    for p in props:
        pid = p['id']
        c = CHECKS.get(pid)
        if not c:
            na.append(dict(property_id=pid, reason=NOT_YET.get(
                pid, 'check not built yet in this round (planned, see '
                     'DESIGN.md section 5)')))
            continue
        checks.append(dict(
            property_id=pid,
            quick_cmd='/venv/bin/python -m vmon check %s --tier quick' % pid,
            thorough_cmd='/venv/bin/python -m vmon check %s --tier thorough'
                         % pid,
            evidence_file='/verif/evidence/%s.json' % pid,
            replay_cmd_template='/venv/bin/python -m vmon replay {path}',
            engine='vmon',
            level_claimed=dict(category=c['cat'], text=c['text'],
                               design_ref='DESIGN.md section ' + c['ref']),
            level_note=c['note'],
            technique=c['technique']))
    m = dict(
        version=1,
        setup_cmd='/venv/bin/python -m vmon setup',
        hooks=dict(
            guard='BTREES_VERIF',
            enable='vmon/build.py compiles the 22 extension modules from '
                   "/repo's working tree with -DBTREES_VERIF=1 into "
                   '/verif/.cache/<content-hash>-<variant>/ (setup.py also '
                   'honours BTREES_VERIF=1 in the environment)',
            baseline_off_cmd=BASELINE_OFF,
            source_commits=hook_commits,
            add_only=True),
        engines=[dict(name='vmon', path='/verif/vmon',
                      serves_properties=sorted(CHECKS),
                      kind_free_text='runtime monitors: reference-model / '
                      'specification oracles on the call boundary, '
                      'structural walkers, a recording data manager, fault '
                      'injectors, a reference-count ledger, clang '
                      'ASan+UBSan builds')],
        checks=checks,
        notes='All checks are runtime monitoring of the real code (C '
              'extension rebuilt from the working tree, pure-Python '
              'implementation).  Exit 0 = held on what was observed (known '
              'findings printed as KNOWN-FINDING lines), 1 = VIOLATION, 2 = '
              'INCONCLUSIVE (a must-see event was not observed, a worker '
              'timed out, a build failed).',
        not_applicable=na)
    with open(os.path.join(VERIF, 'MANIFEST.json'), 'w') as fh:
        json.dump(m, fh, indent=1)
    print('MANIFEST.json: %d checks, %d not claimed' % (len(checks), len(na)))


if __name__ == '__main__':
    main()
