"""C02 - range searches and lazy key/value/item sequences are exact."""
from ..harness import safe_repr as _srepr  # noqa: E402
from .. import corpus, families, harness, walker
from ..families import f32, sort_keys
from ..harness import brief, call, eq
from ..model import klt
from ..runner import rng_for

ID = 'C02'
LEVEL = 'exploration'
RULE = ('evaluations = range / minKey / maxKey / lazy-sequence queries '
        'compared with list slicing on the reference model; containers come '
        'from insert/delete histories at node sizes 2..4 (thinned by '
        'deletions) and the bound grid per container is {omitted, None, every '
        'present key, every gap, below-all, above-all}^2 x 4 flag '
        'combinations (sampled above a cap); distinct_nontrivial = distinct '
        '(impl, kind, method, min-class, max-class, flags, shape class, '
        'result-size class) tuples observed')
ASSUMPTIONS = ['vmon/model.py range semantics: an exclusive omitted bound '
               'drops only the overall smallest / largest key']

_OMIT = ('<omitted>',)

MUST = ['min_after_leaf_last', 'max_eq_separator', 'stale-separator-tree',
        'max_eq_stale_sep', 'excl_omitted_min_one_key_first_leaf',
        'excl_omitted_max_one_key_last_leaf', 'single_interior_child_root',
        'empty_result_across_leaves', 'neg_index_multileaf', 'slice_multileaf']


def must_see(tier):
    m = {}
    for impl in ('c', 'py'):
        for e in MUST:
            m['%s:%s' % (impl, e)] = 1
        m[impl + ':query-on-ghost-tree'] = 2000
        m[impl + ':index_after_first_negative_index'] = 200
        m[impl + ':explore:state-queried'] = 200
    return m


QUICK_FAMS = ['OO', 'II', 'QQ', 'fs']
ROT = [f for f in families.FAMILY_NAMES if f not in QUICK_FAMS]


def plan(tier, seed):
    specs = []
    if tier == 'quick':
        fams = QUICK_FAMS + [ROT[(seed * 4 + i) % len(ROT)] for i in range(4)]
        n = 14
    else:
        fams = list(families.FAMILY_NAMES)
        n = 90
    for fam in fams:
        for impl in ('c', 'py'):
            specs.append(dict(label='%s-%s' % (fam, impl), family=fam,
                              impl=impl, containers=n, seed=seed, tier=tier,
                              variant='mon', timeout=900 if tier == 'quick'
                              else 7200))
    if tier == 'thorough':
        for fam in ['OO', 'II', 'QQ', 'fs', 'LF', 'UO']:
            specs.append(dict(label='%s-c-asan' % fam, family=fam, impl='c',
                              containers=30, seed=seed + 1000, tier=tier,
                              variant='asan', timeout=7200))
    # systematic: the whole bound grid in EVERY reachable state of a small
    # universe (vmon/explore.py)
    from .. import explore
    specs += explore.specs_for(ID, tier, seed, ['II', 'OO'],
                               ['II', 'OO', 'fs', 'QQ'], u_quick=5,
                               u_thorough=6)
    return specs


def bound_class(b, keys):
    if b is _OMIT:
        return 'omit'
    if b is None:
        return 'none'
    if b in keys:
        return 'present'
    if not keys:
        return 'gap'
    if klt(b, keys[0]):
        return 'below'
    if klt(keys[-1], b):
        return 'above'
    return 'gap'


def diagnose(impl, is_tree, method, mn, mx, emin, emax, keys, w, ro, mo):
    """Attach a known-finding tag from the observed behaviour."""
    lk = w.leaf_keys if w is not None else []
    omit_min = mn is _OMIT or mn is None
    omit_max = mx is _OMIT or mx is None
    if impl == 'py' and is_tree:
        if method == 'minKey' and ro[:2] == ('exc', 'ValueError') and \
                mo[0] == 'ok':
            for a, nxt in zip(lk, lk[1:]):
                if klt(a[-1], mn) and klt(mn, nxt[0]):
                    return 'F03'
        if method not in ('minKey', 'maxKey') and len(lk) > 1 and (
                (emin and omit_min) or (emax and omit_max)):
            return 'F04'
    if impl == 'c' and is_tree and method not in ('minKey', 'maxKey'):
        if ((emin and omit_min) or (emax and omit_max)) and len(lk) >= 1:
            # F01: root with a single child taken to be "one leaf";
            # F02: crossed end points in different leaves only detected when
            # both bounds are user supplied
            if w.single_child_root and (
                    (emin and omit_min and len(lk[0]) == 1) or
                    (emax and omit_max and len(lk[-1]) == 1)):
                return 'F01'
            if len(lk) > 1 and ro[0] == 'ok' and mo[0] == 'ok' and \
                    len(mo[1]) == 0:
                return 'F02'
    if impl == 'py' and not is_tree and method in ('minKey', 'maxKey') and \
            not keys and ro[:2] == ('exc', 'IndexError') and \
            (mn is _OMIT or mn is None):
        return 'F25'
    return None


def run_shard(spec, rec):
    if spec.get('explore'):
        from .. import explore
        return explore.run_shard(ID, spec, rec)
    fam = families.get(spec['family'])
    impl = spec['impl']
    quick = spec['tier'] == 'quick'
    for ci in range(spec['containers']):
        for kind in families.KINDS:
            if kind in ('Bucket', 'Set') and ci % 3:
                continue
            rng = rng_for(spec['seed'], ID, spec['family'], impl, kind, ci)
            is_tree = kind in families.TREE_KINDS
            is_mapping = kind in families.MAPPING_KINDS
            sizes = corpus.sizes_for(ci, rng) if is_tree and ci % 8 != 7 \
                else None
            vals = [v for v in fam.values(rng)
                    if not isinstance(v, float) or f32(v) == v]
            ls = corpus.grow_container(fam, kind, impl, rng, sizes=sizes,
                                       via_subclass=bool(ci % 2),
                                       values=vals)
            if is_tree and ci % 3 == 1 and len(ls.m) > 1:
                # the same contents in a VALID tree whose separators are only
                # lower bounds (as trees written by older versions, or after
                # conflict resolution, may have): rebuilt through
                # __setstate__
                from .. import surgeon
                try:
                    d0 = surgeon.describe(ls.c, is_mapping)
                    d1, nch = surgeon.loosen_separators(d0, ls.g.universe,
                                                        rng)
                    if nch:
                        t2 = surgeon.build(d1, fam, kind, impl)
                        t2._check()
                        ls.c = t2
                        rec.ev(impl + ':stale-separator-tree')
                except Exception as e:
                    rec.violation('surgeon-rebuild-failed', impl=impl,
                                  family=fam.name, kind=kind,
                                  detail='%s: %s' % (type(e).__name__, e))
                    continue
            check_container(fam, kind, impl, ls, rng, rec, quick)


def check_container(fam, kind, impl, ls, rng, rec, quick):
    c, m = ls.c, ls.m
    is_tree = ls.is_tree
    is_mapping = ls.is_mapping
    keys = m.sorted_keys()
    w = ls.current_walk() if is_tree else None
    if w is not None and w.errors:
        return   # C03's business
    shape = walker.shape_class(w) if w is not None else ('leaf', min(len(keys), 4))
    if w is not None and not w.embedded and w.single_child_root and w.height >= 2:
        rec.ev(impl + ':single_interior_child_root')
    # every third tree is stored in a MiniDB and swept before (half of) the
    # queries: a range search then starts from ghost nodes, as it does on a
    # tree that has just been opened from a database
    conn = None
    if is_tree and w is not None and not w.inline_nonroot and keys and \
            rng.random() < 0.34 and getattr(c, '_p_jar', None) is None \
            and not ls.via_subclass:
        from .. import minidb
        try:
            conn = minidb.Connection(minidb.Storage(), impl)
            conn.add(c)
            conn.commit()
            w.release()
            if ls.walk is not None:
                ls.walk.release()
            rec.ev(impl + ':ghost-tree')
        except Exception:
            conn = None

    def sweep():
        if conn is not None and rng.random() < .5:
            conn.cache.minimize()
            rec.ev(impl + ':query-on-ghost-tree')
    gaps = [k for k in ls.g.universe if k not in m._keys()]
    bounds = [_OMIT, None] + keys + gaps
    if fam.kc == 'O' and None in bounds[2:]:
        # None as an explicit bound means "unbounded"; it is already there
        bounds = [_OMIT, None] + [b for b in bounds[2:] if b is not None]
    pairs = [(a, b) for a in bounds for b in bounds]
    cap = 120 if quick else 400
    if len(pairs) > cap:
        # keep the structurally interesting ones, sample the rest
        keep = []
        if w is not None:
            lasts = set(lk[-1] for lk in w.leaf_keys)
            firsts = set(lk[0] for lk in w.leaf_keys)
            seps = set(w.separators)
            for a, b in pairs:
                if (a in (_OMIT, None) or b in (_OMIT, None)) and \
                        rng.random() < .5:
                    keep.append((a, b))
                elif (b in seps or a in lasts or b in firsts) and \
                        rng.random() < .15:
                    keep.append((a, b))
        stale_b = [s_ for s_ in set(w.separators if w else [])
                   if s_ not in m._keys() and s_ in bounds]
        for s_ in stale_b[:3]:
            keep.append((rng.choice(bounds), s_))
            keep.append((s_, rng.choice(bounds)))
        rng.shuffle(pairs)
        pairs = (keep + pairs)[:cap]
    methods = ['keys', 'values', 'items', 'iterkeys', 'itervalues',
               'iteritems'] if is_mapping else ['keys']
    stale = set(s for s in (w.separators if w else []) if s not in m._keys())
    seps_all = set(w.separators if w else [])
    first_len = len(w.leaf_keys[0]) if w and w.leaf_keys else 0
    last_len = len(w.leaf_keys[-1]) if w and w.leaf_keys else 0
    nleaves = len(w.leaf_keys) if w else 1
    lasts_nonlast = set(lk[-1] for lk in w.leaf_keys[:-1]) if w else set()

    def report(method, mn, mx, emin, emax, ro, mo, extra=None):
        tag = diagnose(impl, is_tree, method, mn, mx, emin, emax, keys, w,
                       ro, mo)
        d = dict(family=fam.name, kind=kind, impl=impl, sizes=ls.sizes,
                 op=method, min=brief(mn), max=brief(mx), excludemin=emin,
                 excludemax=emax, observed=brief(ro[:2], 300),
                 detail=brief(ro[2], 300) if len(ro) > 2 and ro[0] == 'exc'
                 else None, ghost_tree=conn is not None,
                 expected=brief(mo[:2], 300), keys=brief(keys, 300),
                 leaves=brief(w.leaf_keys if w else None, 300),
                 shape=brief(w.shape if w else None),
                 history=[brief(x, 100) for x in ls.log[-80:]])
        if extra:
            d.update(extra)
        if tag:
            d['finding'] = tag
        rec.violation('range-mismatch', **d)

    nviol = 0
    for (mn, mx) in pairs:
        for emin in (False, True):
            for emax in (False, True):
                method = rng.choice(methods)
                args, kw = build_args(mn, mx, emin, emax, rng)
                rec.journal(_srepr((ls.describe(), ls.log, method, args, kw)))
                sweep()
                ro = call(c, method, args, kw)
                mo = call(m, method, args, kw)
                rec.evaluations += 1
                res_n = len(mo[1]) if mo[0] == 'ok' else -1
                rec.seen(impl, kind, method, bound_class(mn, keys),
                         bound_class(mx, keys), emin, emax, shape,
                         min(res_n, 3))
                # must-see bookkeeping
                if is_tree and nleaves > 1:
                    if mn is not _OMIT and mn is not None and any(
                            klt(l, mn) for l in lasts_nonlast) and \
                            mn not in m._keys() and w is not None and any(
                                klt(a[-1], mn) and klt(mn, b[0]) for a, b in
                                zip(w.leaf_keys, w.leaf_keys[1:])):
                        rec.ev(impl + ':min_after_leaf_last')
                    if mx in stale:
                        rec.ev(impl + ':max_eq_stale_sep')
                    if mx in seps_all:
                        rec.ev(impl + ':max_eq_separator')
                    if emin and (mn is _OMIT or mn is None) and first_len == 1:
                        rec.ev(impl + ':excl_omitted_min_one_key_first_leaf')
                    if emax and (mx is _OMIT or mx is None) and last_len == 1:
                        rec.ev(impl + ':excl_omitted_max_one_key_last_leaf')
                    if res_n == 0 and mn not in (_OMIT, None) and \
                            mx not in (_OMIT, None) and klt(mn, mx):
                        rec.ev(impl + ':empty_result_across_leaves')
                if not harness.outcome_eq(ro, mo):
                    nviol += 1
                    if nviol <= 6:
                        report(method, mn, mx, emin, emax, ro, mo)
                    continue
                # lazy sequence behaviour (trees): len, index, slice
                if is_tree and method in ('keys', 'values', 'items') and \
                        rng.random() < (0.25 if quick else 0.5):
                    bad = check_lazy(c, method, args, kw, mo[1], rng, rec,
                                     impl, nleaves, sweep)
                    if bad:
                        nviol += 1
                        if nviol <= 6:
                            report(method, mn, mx, emin, emax,
                                   ('ok', bad['observed']),
                                   ('ok', bad['expected']),
                                   extra=dict(lazy=bad['what']))
    # minKey / maxKey for every bound
    for b in bounds:
        for method in ('minKey', 'maxKey'):
            args = () if b is _OMIT else (b,)
            sweep()
            ro = call(c, method, args)
            mo = call(m, method, args)
            rec.evaluations += 1
            rec.seen(impl, kind, method, bound_class(b, keys), shape,
                     mo[0] if mo[0] == 'exc' else 'ok')
            if is_tree and nleaves > 1 and method == 'minKey' and \
                    b not in (_OMIT, None) and any(
                        klt(a[-1], b) and klt(b, nx[0]) for a, nx in
                        zip(w.leaf_keys, w.leaf_keys[1:])):
                rec.ev(impl + ':min_after_leaf_last')
            if not harness.outcome_eq(ro, mo):
                nviol += 1
                if nviol <= 8:
                    report(method, b, _OMIT, False, False, ro, mo)
    if nviol == 0 and rng.random() < 0.02:
        rec.sample(dict(family=fam.name, kind=kind, impl=impl, keys=brief(keys),
                        leaves=brief(w.leaf_keys if w else None),
                        queries=len(pairs) * 4 + 2 * len(bounds)))


def build_args(mn, mx, emin, emax, rng):
    """Positional or keyword form, omitted bounds really omitted."""
    kw = {}
    args = ()
    form = rng.random()
    if mn is _OMIT and mx is _OMIT:
        pass
    elif mx is _OMIT:
        if form < .5:
            args = (mn,)
        else:
            kw['min'] = mn
    elif mn is _OMIT:
        kw['max'] = mx
    else:
        if form < .5:
            args = (mn, mx)
        else:
            kw['min'] = mn
            kw['max'] = mx
    if emin or emax:
        if args and len(args) == 2 and form < .25:
            args = args + (emin, emax)
        else:
            if emin or form < .3:
                kw['excludemin'] = emin
            if emax or form < .3:
                kw['excludemax'] = emax
    return args, kw


def check_index_only(c, method, args, kw, expected, rng, rec, impl):
    """FRESH sequence objects that are only ever indexed (no len(), bool()
    or iteration first): the first access that needs the length is an index,
    often a negative one, and later accesses on the same object must still
    agree with the list."""
    n = len(expected)
    for _ in range(3):
        seq = getattr(c, method)(*args, **kw)
        first = rng.choice([-1, -2, -n, -(n // 2) - 1, 0, n - 1,
                            rng.randint(-n - 1, n)])
        idx = [first] + [rng.randint(-n - 1, n) for _ in range(3)]
        if rng.random() < .5:
            idx[1:] = sorted(idx[1:])      # ascending: the cursor moves on
        for step, i in enumerate(idx):
            rec.evaluations += 1
            try:
                got = ('ok', seq[i])
            except IndexError:
                got = ('exc', 'IndexError')
            except Exception as e:
                got = ('exc', type(e).__name__)
            try:
                want = ('ok', expected[i])
            except IndexError:
                want = ('exc', 'IndexError')
            if step and idx[0] < 0:
                rec.ev(impl + ':index_after_first_negative_index')
            if got[0] != want[0] or (got[0] == 'ok' and
                                     not eq(got[1], want[1])) or \
                    (got[0] == 'exc' and got[1] != want[1]):
                return dict(what='fresh seq, indexes %r: seq[%d]' % (
                    idx[:step + 1], i), observed=got, expected=want)
    return None


def check_lazy(c, method, args, kw, expected, rng, rec, impl, nleaves,
               sweep=None):
    bad = check_index_only(c, method, args, kw, expected, rng, rec, impl)
    if bad:
        return bad
    seq = getattr(c, method)(*args, **kw)
    n = len(expected)
    if sweep is not None:
        sweep()         # len() / indexing must load what they count
    if rng.random() < .3:
        # far beyond the end first: a refused index must not teach the
        # sequence a wrong length
        for far in (n + 1 + rng.randint(0, 3), -(n + 2 + rng.randint(0, 3))):
            try:
                seq[far]
                return dict(what='seq[%d] did not raise' % far, observed='ok',
                            expected='IndexError')
            except IndexError:
                pass
            except Exception as e:
                return dict(what='seq[%d] raised %s' % (
                    far, type(e).__name__), observed=None,
                    expected='IndexError')
        rec.ev(impl + ':far_index_then_len')
    r_ = rng.random()
    if r_ < .25:
        # the same sequence object is iterated part of the way first (a
        # loop left early), then indexed: iteration must not move what
        # indexing relies on
        k = rng.randint(0, n)
        it = iter(seq)
        got = []
        for _ in range(k):
            try:
                got.append(next(it))
            except StopIteration:
                break
        rec.evaluations += 1
        rec.ev(impl + ':partial_iteration_then_index')
        if not eq(got, expected[:k]):
            return dict(what='first %d of iter(seq)' % k, observed=got,
                        expected=expected[:k])
        if rng.random() < .5:
            del it
    elif r_ < .35 and n:
        # a membership test that hits half-way
        x = expected[rng.randrange(n)]
        rec.evaluations += 1
        rec.ev(impl + ':membership_then_index')
        try:
            if not (x in seq):
                return dict(what='%r in seq' % (x,), observed=False,
                            expected=True)
        except Exception as e:
            return dict(what='x in seq raised %s' % type(e).__name__,
                        observed=None, expected=True)
    elif r_ < .45:
        # two iterations over ONE sequence object at the same time
        rec.evaluations += 1
        rec.ev(impl + ':paired_iteration')
        try:
            got = [(a, b) for a, b in zip(seq, seq)]
        except Exception as e:
            return dict(what='zip(seq, seq) raised %s' % type(e).__name__,
                        observed=None, expected=n)
        if not eq(got, [(a, a) for a in expected]):
            return dict(what='zip(seq, seq)', observed=got[:6],
                        expected=[(a, a) for a in expected][:6])
        it1 = iter(seq)
        first = [x for _, x in zip(range(n // 2), it1)]
        got = first + [x for x in seq][:0] + list(it1)
        if not eq(got, expected):
            return dict(what='iterator resumed after a full second iteration',
                        observed=got[:8], expected=expected[:8])
    try:
        ln = len(seq)
    except Exception as e:
        return dict(what='len raised %s' % type(e).__name__,
                    observed=None, expected=n)
    rec.evaluations += 1
    if ln != n:
        return dict(what='len', observed=ln, expected=n)
    if bool(seq) != bool(expected):
        return dict(what='bool', observed=bool(seq), expected=bool(expected))
    idx = list(range(-n - 1, n + 1))
    rng.shuffle(idx)   # random access order exercises the cursor re-seek
    for i in idx[:12]:
        rec.evaluations += 1
        if sweep is not None and rng.random() < .3:
            sweep()
        try:
            got = ('ok', seq[i])
        except IndexError:
            got = ('exc', 'IndexError')
        except Exception as e:
            got = ('exc', type(e).__name__)
        try:
            want = ('ok', expected[i])
        except IndexError:
            want = ('exc', 'IndexError')
        if i < 0 and nleaves > 1 and n > 1:
            rec.ev(impl + ':neg_index_multileaf')
        if got[0] != want[0] or (got[0] == 'ok' and not eq(got[1], want[1])) \
                or (got[0] == 'exc' and got[1] != want[1]):
            return dict(what='seq[%d]' % i, observed=got, expected=want)
    for _ in range(6):
        i = rng.randint(-n - 2, n + 2)
        j = rng.randint(-n - 2, n + 2)
        form = rng.random()
        if form < .2:
            sl = slice(i, None)
        elif form < .4:
            sl = slice(None, j)
        else:
            sl = slice(i, j)
        rec.evaluations += 1
        try:
            got = list(seq[sl])
        except Exception as e:
            return dict(what='seq[%r] raised %s' % (sl, type(e).__name__),
                        observed=None, expected=expected[sl])
        if nleaves > 1 and n > 1:
            rec.ev(impl + ':slice_multileaf')
        if not eq(got, expected[sl]):
            return dict(what='seq[%r]' % (sl,), observed=got,
                        expected=expected[sl])
    if not eq(list(seq), expected):
        return dict(what='list(seq) after indexing', observed=list(seq),
                    expected=expected)
    return None
