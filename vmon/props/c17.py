"""C17 - running out of memory inside an operation is reported, not
corrupting (fault enumeration with the guarded allocation hook)."""
from ..harness import safe_repr as _srepr  # noqa: E402
import gc

from .. import minidb, families, gen, harness, hist, setops, walker
from ..families import f32, sort_keys
from ..harness import brief, eq
from ..runner import rng_for

ID = 'C17'
LEVEL = 'fault_enumeration'
RULE = ('evaluations = injected allocation failures: for every (C container '
        'reached by a generated history at node sizes 2..4, operation that '
        'can allocate: insert into an empty container, insert growing a '
        'leaf, leaf / interior / root split, update, add, |= -= ^= &= '
        '(list and container operands, the operand stored and evicted in '
        'half of the stored cases), union / '
        'intersection / difference, weightedUnion, multiunion, '
        '_p_resolveConflict, __setstate__ of leaves and trees, fsBucket '
        'fromString) the allocations of a clean run are counted with the '
        'BTREES_VERIF hook (N) and the operation is re-run on a rebuilt '
        'container failing the n-th allocation for every n <= N; the call '
        'must raise MemoryError (or, for the sort buffer of multiunion, '
        'fall back and return the right answer), the container must pass '
        '_check / check() / walker with the previous contents or the '
        'completed change, and a follow-up workload on the same container '
        '(incl. growing the same leaf again, then destroying it) must '
        'behave; for stored containers a commit after the failed call '
        'must store what the writer holds (fresh reader); every case also '
        'runs on the ASan+UBSan build; '
        'distinct_nontrivial = distinct (family class, kind, operation, '
        'failing allocation index, allocations of the operation, outcome) '
        'tuples')
ASSUMPTIONS = ['only allocations routed through BTree_Malloc / BTree_Realloc '
               '(and the radix-sort buffer) can be failed; failures of '
               "CPython's own object allocation are out of reach without "
               'destabilising the interpreter']

QUICK_FAMS = ['II', 'OO', 'LF', 'fs', 'QO', 'OI', 'UU', 'IO']


def must_see(tier):
    m = {'big-container': 10, 'multiunion-huge': 1, 'failures-injected': 1500, 'outcome:MemoryError': 1000,
         'failures-injected:stored': 300, 'stored-operand': 20,
         'commit-after-failure-read-back': 100,
         'outcome:unchanged': 300, 'sort-buffer-fallback': 1}
    for op in ('insert-empty', 'insert-grow', 'insert-split', 'update',
               'ior', 'isub', 'ixor', 'iand', 'ior-container',
               'fn:union', 'fn:difference', 'multiunion', 'resolve',
               'setstate-leaf', 'setstate-tree', 'setstate-existing',
               'weightedUnion',
               'fromString'):
        m['fault:' + op] = 3
    m['split:leaf'] = 20
    m['split:interior-or-root'] = 5
    return m


def plan(tier, seed):
    q = tier == 'quick'
    fams = QUICK_FAMS if q else list(families.FAMILY_NAMES)
    specs = []
    for fam in fams:
        specs.append(dict(label=fam, family=fam, containers=14 if q else 240,
                          seed=seed, tier=tier, variant='mon',
                          timeout=900 if q else 7200))
        specs.append(dict(label=fam + '-asan', family=fam,
                          containers=6 if q else 40, seed=seed + 21,
                          tier=tier, variant='asan',
                          timeout=1500 if q else 7200))
    # memcheck: a half-built vector that is read after a failed allocation
    # is an uninitialised read, which ASan cannot see
    for fam in (['OO'] if q else ['OO', 'II', 'fs', 'LF', 'QO']):
        specs.append(dict(label=fam + '-valgrind', family=fam,
                          containers=2 if q else 12, seed=seed + 23,
                          tier=tier, variant='vg',
                          timeout=1800 if q else 7200))
    return specs


_DEFAULT_SIZES = {}


def run_shard(spec, rec):
    fam = families.get(spec['family'])
    for kind_ in families.TREE_KINDS:
        c_ = fam.cls(kind_, 'c')
        _DEFAULT_SIZES.setdefault((fam.name, kind_), (c_.max_leaf_size,
                                                      c_.max_internal_size))
    arm = fam.cmod._verif_alloc_arm
    count = fam.cmod._verif_alloc_count
    for ci in range(spec['containers']):
        for kind in families.KINDS:
            rng = rng_for(spec['seed'], ID, spec['label'], kind, ci)
            run_container(fam, kind, rng, rec, ci, arm, count)
    arm(0)


def run_container(fam, kind, rng, rec, ci, arm, count):
    impl = 'c'
    is_mapping = kind in families.MAPPING_KINDS
    is_tree = kind in families.TREE_KINDS
    sizes = gen.NODE_SIZES[rng.randrange(len(gen.NODE_SIZES))] if is_tree \
        else None
    cls = fam.cls(kind, impl)
    if sizes:
        harness.set_node_sizes(cls, *sizes)
    vals = [v for v in fam.values(rng)
            if not isinstance(v, float) or f32(v) == v]
    if fam.vc in 'IULQ':
        vals = [0, 1, 2, 7]     # (weighted sums must not overflow)
    elif fam.vc == 'F':
        vals = [0.0, 1.0, -2.5, 8.0]
    uni = [k for k in fam.key_universe(rng, n=26) if k is not None]
    rng.shuffle(uni)
    nkeys = 0 if ci % 5 == 4 else rng.randint(1, 18)
    # every sixth container is BIG: leaves that have grown past their
    # initial capacity several times (and, for trees, the default node
    # sizes half of the time), then deleted from - whatever a leaf does
    # with its memory when it shrinks happens only there
    big = ci % 6 == 3
    if big:
        uni = list(dict.fromkeys(
            k for k in fam.key_universe(rng, n=140) if k is not None))
        rng.shuffle(uni)
        nkeys = min(len(uni) - 4, rng.randint(40, 110))
        if is_tree and rng.random() < .5:
            sizes = None
            harness.set_node_sizes(cls, *_DEFAULT_SIZES[(fam.name, kind)])
        rec.ev('big-container')
    base_keys = uni[:nkeys]
    free = uni[nkeys:]
    base_vals = {k: rng.choice(vals) for k in base_keys}
    desc = dict(family=fam.name, kind=kind, impl=impl, sizes=sizes,
                base=brief(sort_keys(base_keys), 200))

    # every third container lives in a database and is swept before the
    # operation: the allocations of the ghost loads (node vectors in
    # __setstate__) then fail INSIDE the operation that triggered the load
    stored = [ci % 3 == 1]
    store_other = ci % 2 == 1
    okind = rng.choice(setops.CONTAINER_KINDS)

    def rebuild():
        arm(0)
        c = cls()
        for k in base_keys:
            if is_mapping:
                c[k] = base_vals[k]
            else:
                c.add(k)
        if stored[0]:
            conn = minidb.Connection(minidb.Storage(), 'c')
            conn.log_events = False
            conn.add(c)
            o = _OTHER[0]
            if store_other and o is not None and \
                    getattr(o, '_p_jar', 1) is None and len(o):
                # the OTHER operand lives in the database too and is a ghost
                # when the operation starts: its loads fail inside the call
                wo = walker.walk(o, okind in ('Bucket', 'BTree')) \
                    if okind in ('BTree', 'TreeSet') else None
                if wo is None or not wo.inline_nonroot:
                    conn.add(o)
                    rec.ev('stored-operand')
                del wo
            del o
            conn.commit()
            conn.cache.minimize()
            _CONN[0] = conn
        return c

    def sweep():
        if stored[0] and _CONN[0] is not None:
            _CONN[0].cache.minimize()

    def contents(c):
        return harness.contents(c, is_mapping)
    c0 = rebuild()
    before = contents(c0)
    w0 = walker.walk(c0, is_mapping) if is_tree else None
    if stored[0] and ((w0 is not None and w0.inline_nonroot) or not before):
        stored[0] = False       # (F22 shape: the database copy is damaged)
    if stored[0]:
        desc['stored'] = True
        rec.ev('stored-container')
    del c0

    def after_insert(keys_vals):
        d = dict(before) if is_mapping else {k: None for k in before}
        for k, v in keys_vals:
            d[k] = fam.norm_val(v) if is_mapping else None
        ks = sort_keys(list(d))
        return [(k, d[k]) for k in ks] if is_mapping else ks

    ops = []          # (name, fn(c) -> result, allowed final contents list,
    #                    result checker or None)
    v1 = rng.choice(vals)

    def ins(k, v=v1):
        if is_mapping:
            return lambda c: c.__setitem__(k, v)
        return lambda c: c.add(k)
    if free:
        k1 = free[0]
        name = 'insert-empty' if not base_keys else 'insert-grow'
        ops.append((name, ins(k1), [before, after_insert([(k1, v1)])], None))
        # a key aimed at a full leaf -> split
        if w0 is not None and sizes:
            from ..model import klt
            for lk in w0.leaf_keys:
                if len(lk) >= sizes[0]:
                    cand = [k for k in free if klt(lk[0], k) and
                            klt(k, lk[-1])]
                    if cand:
                        ops.append(('insert-split', ins(cand[0]),
                                    [before, after_insert([(cand[0], v1)])],
                                    None))
                        break
        more = free[:rng.randint(2, 6)]
        pairs = [(k, rng.choice(vals)) for k in more]
        prefixes = [after_insert(pairs[:i]) for i in range(len(pairs) + 1)]
        if is_mapping:
            ops.append(('update', lambda c: c.update(list(pairs)), prefixes,
                        None))
        else:
            ops.append(('update', lambda c: c.update(list(more)), prefixes,
                        None))
            ops.append(('ior', lambda c: c.__ior__(list(more)), prefixes,
                        None))
    # operations that allocate only through the loading of ghost nodes
    # (stored containers): deletes and reads
    if (stored[0] or big) and base_keys:
        def minus(k):
            return [x for x in before
                    if (x[0] if is_mapping else x) != k]
        dk = []
        if w0 is not None and w0.leaf_keys:
            dk += [lk[0] for lk in w0.leaf_keys[1:3]]          # leaf minima
            dk += [lk[0] for lk in w0.leaf_keys if len(lk) == 1][:2]
            dk += [w0.leaf_keys[0][0], w0.leaf_keys[-1][-1]]
        else:
            dk += [base_keys[0]]
        for k in list(dict.fromkeys(dk))[:5]:
            if is_mapping:
                f_ = lambda c, k=k: c.__delitem__(k)
            else:
                f_ = lambda c, k=k: c.remove(k)
            f_.deleted_key = k
            ops.append(('delete', f_, [before, minus(k)], None))
        if big:
            # most of the contents deleted in one go (ascending, descending
            # or shuffled): any prefix of the deletions may be what is left
            order = sort_keys(list(base_keys))
            r_ = rng.random()
            if r_ < .3:
                order.reverse()
            elif r_ < .6:
                rng.shuffle(order)
            order = order[:len(order) - rng.randint(0, 3)]

            def del_many(c, order=order):
                for k in order:
                    if is_mapping:
                        del c[k]
                    else:
                        c.remove(k)
            gone = set()
            pref = [list(before)]
            for k in order:
                gone.add(k)
                pref.append([x for x in before
                             if (x[0] if is_mapping else x) not in gone])
            ops.append(('delete-many', del_many, pref, None))
        kmin = (before[0][0] if is_mapping else before[0])
        kmax = (before[-1][0] if is_mapping else before[-1])
        if is_mapping:
            f_ = lambda c: c.pop(kmax)
            f_.deleted_key = kmax
            ops.append(('pop', f_, [before, minus(kmax)], None))
            f_ = lambda c: c.popitem()
            f_.deleted_key = kmin
            ops.append(('popitem', f_, [before, minus(kmin)], None))
        sk_ = sort_keys(list(base_keys))
        a_, b_ = sk_[len(sk_) // 3], sk_[(2 * len(sk_)) // 3]
        reads = [('read:keys', lambda c: [x for x in c.keys()]),
                 ('read:range', lambda c: [x for x in c.keys(a_, b_)]),
                 ('read:range-excl', lambda c: [x for x in c.keys(
                     None, None, True, True)]),
                 ('read:len', lambda c: len(c)),
                 ('read:contains', lambda c: (kmax in c, a_ in c)),
                 ('read:minmax', lambda c: (c.minKey(a_), c.maxKey(b_))),
                 ('read:iter', lambda c: [x for x in c])]
        if is_tree:
            reads.append(('read:index', lambda c: (c.keys()[-1],
                                                   c.keys()[0],
                                                   len(c.keys(a_)))))
        if is_mapping:
            reads.append(('read:items', lambda c: [x for x in c.items(
                a_, None, True)]))
            reads.append(('read:get', lambda c: (c.get(kmax), c[kmin])))
        for nm_, fn_ in reads:
            ops.append((nm_, fn_, [before], None))
    # module-level functions: the container is only an operand
    okeys = rng.sample(uni, min(len(uni), rng.randint(1, 10)))

    oseed = rng.getrandbits(48)

    def other():
        # (the same shape every time: the allocations of its loads are
        # counted in the clean run and failed one by one afterwards)
        import random
        arm(0)
        o, _ = setops.make_container(fam, okind, impl, okeys, vals,
                                     random.Random(oseed))
        return o
    bk = set(base_keys)
    for fname, wk in (('union', bk | set(okeys)),
                      ('difference', bk - set(okeys)),
                      ('intersection', bk & set(okeys))):
        def run(c, fname=fname):
            return fam.fn(fname, impl)(c, _OTHER[0])

        def chk(r, wk=wk):
            return list(r.keys()) == sort_keys(list(wk))
        ops.append(('fn:' + fname, run, [before], chk))
    if not is_mapping:
        # the in-place operators with a container operand: deletions and
        # toggles are applied key by key in the operand's (ascending) order
        oks = sort_keys(list(okeys))
        bl = list(before)

        def minus_set(ks):
            return [x for x in bl if x not in ks]

        def toggled(ks):
            return sort_keys(list(set(bl) ^ set(ks)))
        ops.append(('isub', lambda c: c.__isub__(_OTHER[0]),
                    [minus_set(set(oks[:i])) for i in range(len(oks) + 1)],
                    None))
        ops.append(('ixor', lambda c: c.__ixor__(_OTHER[0]),
                    [toggled(oks[:i]) for i in range(len(oks) + 1)], None))
        # (&= removes the non-survivors in place, in ascending order)
        nons = [x for x in bl if x not in set(oks)]
        ops.append(('iand', lambda c: c.__iand__(_OTHER[0]),
                    [minus_set(set(nons[:i])) for i in range(len(nons) + 1)],
                    None))
        ops.append(('ior-container', lambda c: c.__ior__(_OTHER[0]),
                    [sort_keys(list(set(bl) | set(oks[:i])))
                     for i in range(len(oks) + 1)], None))
    if fam.has_weighted and base_keys:
        ops.append(('weightedUnion',
                    lambda c: fam.fn('weightedUnion', impl)(c, _OTHER[0]),
                    [before],
                    lambda r: list(r[1].keys()) == sort_keys(
                        list(bk | set(okeys)))))
    if fam.has_multiunion:
        n_big = rng.choice([5, 40, 900])
        if big and ci % 12 == 3:
            # far beyond the sizes at which the sort switches algorithms:
            # when the radix sort's work area cannot be had, the fallback
            # sorts ALL of it (its recursion / work stack has to hold)
            n_big = 150000
            rec.ev('multiunion-huge')
        lo = min(uni)
        big = list(dict.fromkeys(
            [k for k in uni] + [lo + 3 * i for i in range(n_big)
                                if fam.key_ok(lo + 3 * i)]))
        ops.append(('multiunion',
                    lambda c: fam.fn('multiunion', impl)([c, list(big)]),
                    [before],
                    lambda r: list(r) == sorted(set(big) | bk)))
    if kind in ('Bucket', 'Set') and len(base_keys) >= 2 and len(free) >= 2:
        sk = sort_keys(base_keys)

        def state(keys):
            ks = sort_keys(keys)
            if is_mapping:
                flat = []
                for k in ks:
                    flat += [k, base_vals.get(k, vals[0])]
                return (tuple(flat),)
            return (tuple(ks),)
        s_old = state(sk)
        s_com = state(sk + [max(free[:2], key=lambda k: (k is not None, k))])
        s_new = state(sk[:1] + sk[1:] + [min(free[:2],
                                             key=lambda k: (k is not None, k))])
        ops.append(('resolve',
                    lambda c: cls()._p_resolveConflict(s_old, s_com, s_new),
                    [before], None))
    # __setstate__ of a fresh object from the container's own state
    def setstate_fresh(c):
        st = c.__getstate__()
        f = cls()
        _TARGET[0] = f         # (examined when the call fails)
        f.__setstate__(st)
        return f
    if base_keys:
        ops.append(('setstate-tree' if is_tree else 'setstate-leaf',
                    setstate_fresh, [before],
                    lambda f: contents(f) == before))
    # __setstate__ on a container that already holds (fewer) entries
    if base_keys and len(free) >= 6 and kind in ('Bucket', 'Set'):
        bigkeys = sort_keys(base_keys + free[:6])

        def big_state():
            if is_mapping:
                flat = []
                for k in bigkeys:
                    flat += [k, base_vals.get(k, vals[0])]
                return (tuple(flat),)
            return (tuple(bigkeys),)
        bigwant = [(k, fam.norm_val(base_vals.get(k, vals[0])))
                   for k in bigkeys] if is_mapping else list(bigkeys)
        ops.append(('setstate-existing',
                    lambda c: c.__setstate__(big_state()),
                    [before, bigwant], None))
    if fam.name == 'fs' and kind == 'Bucket' and base_keys:
        def from_string(c):
            s = c.toString()
            b = cls()
            b.fromString(s)
            return b
        ops.append(('fromString', from_string, [before],
                    lambda f: contents(f) == before))
        # fromString on a bucket that already holds fewer entries
        import itertools
        extra_k = [k for k in free[:8]]
        bigk = sort_keys(base_keys + extra_k)
        blob = b''.join(bigk) + b''.join(
            base_vals.get(k, vals[0]) for k in bigk)
        bigwant2 = [(k, base_vals.get(k, vals[0])) for k in bigk]
        ops.append(('fromString-existing', lambda c: c.fromString(blob),
                    [before, bigwant2], None))

    for name, fn, allowed, checker in ops:
        _OTHER[0] = other()
        c = rebuild()
        arm(0)
        try:
            r = fn(c)
            del r
        except Exception as e:
            # a clean run must work
            rec.violation('operation-failed-without-fault', op=name,
                          detail='%s: %s' % (type(e).__name__, e), **desc)
            del c
            continue
        N = count()
        del c
        if name == 'insert-split':
            rec.ev('split:leaf')
        for n in range(1, N + 1):
            _OTHER[0] = other()
            c = rebuild()
            wb = walker.walk(c, is_mapping) if is_tree else None
            sweep()
            rec.journal(_srepr((desc, name, n, N)))
            arm(n)
            out = None
            res = None
            try:
                try:
                    res = fn(c)
                    out = 'ok'
                except MemoryError:
                    out = 'MemoryError'
                except Exception as e:
                    out = type(e).__name__
                    del e
            finally:
                try:
                    reached = count()
                except SystemError:
                    reached = n
                try:
                    arm(0)
                except SystemError:
                    # the operation returned normally but left its error
                    # pending: the next C call trips over it
                    arm(0)
                    out = 'returned-with-error-pending'
            if out == 'ok' and reached < n:
                # (the run needed fewer allocations than the clean one: the
                # armed failure was never reached)
                rec.ev('fault-not-reached')
                del res, c
                continue
            rec.evaluations += 1
            rec.ev('failures-injected')
            rec.ev('fault:' + name)
            rec.ev('outcome:' + out)
            if stored[0]:
                rec.ev('failures-injected:stored')
            d = dict(desc, op=name, fail_alloc=n, allocations=N)
            if out == 'ok':
                # only the sort buffer may be done without
                okres = False
                if name == 'multiunion' and checker is not None:
                    try:
                        okres = checker(res)
                    except Exception:
                        okres = False
                    if okres:
                        rec.ev('sort-buffer-fallback')
                if not okres:
                    rec.violation('allocation-failure-not-reported',
                                  observed=out, **d)
                    del res, c
                    continue
            elif out != 'MemoryError':
                rec.violation('allocation-failure-raised-other',
                              observed=out, **d)
                del c
                continue
            del res
            # ---- a fresh object whose __setstate__ failed half-way ----------
            tgt, _TARGET[0] = _TARGET[0], None
            if tgt is not None and name.startswith('setstate-'):
                # it must be a sound container holding nothing or everything
                terrs = []
                if is_tree:
                    terrs, _w = hist.structural_checks(tgt, is_mapping,
                                                       sizes=False)
                    del _w
                try:
                    tgot = contents(tgt)
                    tlen = (len(tgt), bool(tgt))
                except Exception as e:
                    terrs.append(('contents', '%s: %s' % (
                        type(e).__name__, e)))
                    tgot, tlen = None, None
                if terrs or not (eq(tgot, []) or eq(tgot, before)) or \
                        tlen != (len(tgot), bool(tgot)):
                    rec.violation('target-of-failed-setstate-damaged',
                                  errors=terrs[:3], observed=brief(tgot, 200),
                                  len_bool=tlen, **d)
                    del c, tgt
                    continue
                rec.ev('failed-setstate-target-checked')
                try:
                    # and it must be usable as it is: ordinary inserts and
                    # deletes on the node the failed load left behind ...
                    if eq(tgot, []) and kind in ('Bucket', 'Set') and free:
                        for k_ in free[:3]:
                            if is_mapping:
                                tgt[k_] = vals[0]
                            else:
                                tgt.add(k_)
                        if len(tgt) != len(free[:3]):
                            raise AssertionError('inserts after the failed '
                                                 'load: wrong length')
                        for k_ in free[:3]:
                            if is_mapping:
                                del tgt[k_]
                            else:
                                tgt.remove(k_)
                        rec.ev('failed-setstate-target-used')
                    # ... and it must accept the load again
                    tgt.__setstate__(c.__getstate__())
                    if not eq(contents(tgt), before):
                        raise AssertionError('second __setstate__ wrong')
                except Exception as e:
                    rec.violation('target-of-failed-setstate-unusable',
                                  detail='%s: %s' % (type(e).__name__, e),
                                  **d)
                    del c, tgt
                    continue
            del tgt
            # ---- soundness and contents -----------------------------------
            if is_tree:
                # (no node-size check: an insert whose split could not get
                # memory leaves the key in an over-full leaf, which is the
                # "completed change" in a sound tree; the next insert splits)
                errs, wa = hist.structural_checks(c, is_mapping, sizes=False)
                if errs:
                    # F38: the key was the only one of its leaf; the emptied
                    # leaf has to be unlinked through its LEFT neighbour,
                    # whose (ghost) nodes could not be loaded: the error is
                    # reported, but the leaf is already empty and stays
                    # linked
                    dk_ = getattr(fn, 'deleted_key', None)
                    solo = (dk_ is not None and w0 is not None and any(
                        len(lk) == 1 and eq(lk[0], dk_)
                        for lk in w0.leaf_keys))
                    if name in ('isub', 'ixor', 'iand') and w0 is not None \
                            and len(w0.leaf_keys) > 1:
                        # an in-place operator deleting key after key from a
                        # stored multi-leaf tree: some leaf loses its last
                        # key on the way
                        solo = True
                        dk_ = None
                    try:
                        # (iteration follows the damaged chain: ask by key)
                        others = [(x[0] if is_mapping else x)
                                  for x in allowed[-1]]
                        gone = dk_ is None or (
                            dk_ not in c and all(k_ in c for k_ in others))
                    except Exception:
                        gone = False
                    if stored[0] and solo and gone and out == 'MemoryError' \
                            and all(('Bucket length < 1' in e[1] or
                                     'next pointer' in e[1] or
                                     'empty leaf' in e[1] or
                                     'empty interior child' in e[1] or
                                     'leaf chain differs' in e[1])
                                    for e in errs):
                        d['finding'] = 'F38'
                    else:
                        d['why_not_f38'] = brief(dict(
                            stored=stored[0], solo=solo, gone=gone, out=out,
                            dk=dk_, errs=[e[1][:40] for e in errs]), 400)
                    rec.violation('container-damaged-after-allocation-'
                                  'failure', errors=errs[:3], **d)
                    del c
                    continue
                if wb is not None and wa is not None and \
                        wa.n_interior > wb.n_interior:
                    rec.ev('split:interior-or-root')
                del wa
            try:
                got = contents(c)
            except Exception as e:
                rec.violation('contents-unreadable-after-allocation-failure',
                              detail='%s: %s' % (type(e).__name__, e), **d)
                del c
                continue
            if not any(eq(got, a) for a in allowed):
                rec.violation('partial-change-after-allocation-failure',
                              observed=brief(got, 300),
                              allowed=brief(allowed[:3], 400), **d)
                del c
                continue
            oc = 'unchanged' if eq(got, before) else 'changed'
            rec.ev('outcome:' + oc)
            # ---- what a commit after the failed call stores -----------------
            # (the application may catch MemoryError and go on: whatever the
            # failed call did change must have been announced)
            if stored[0] and _CONN[0] is not None and out == 'MemoryError' \
                    and not name.startswith(('setstate', 'fromString')):
                conn_ = _CONN[0]
                wq = walker.walk(c, is_mapping) if is_tree else None
                inl = bool(wq is not None and wq.inline_nonroot)
                del wq
                if not inl:
                    rerr = None
                    try:
                        conn_.commit()
                        if not (is_tree and minidb.embedded_but_leaf_has_oid(
                                conn_, c)):
                            c2 = minidb.Connection(conn_.storage, 'c')
                            c2.log_events = False
                            rd = c2.get(c._p_oid)
                            rgot = harness.contents(rd, is_mapping)
                            if not eq(rgot, got):
                                rerr = 'reader sees %s' % brief(rgot, 200)
                            elif is_tree:
                                e2, _w = hist.structural_checks(
                                    rd, is_mapping, sizes=False)
                                del _w
                                if e2:
                                    rerr = brief(e2[:3], 300)
                            del rd, c2
                            rec.ev('commit-after-failure-read-back')
                    except Exception as e:
                        rerr = '%s: %s' % (type(e).__name__, e)
                    if rerr:
                        rec.violation('stored-copy-wrong-after-allocation-'
                                      'failure', detail=rerr,
                                      writer=brief(got, 200), **d)
                        del c
                        continue
            rec.seen(fam.kc + fam.vc if fam.name != 'fs' else 'fs', kind,
                     name, n, N, oc)
            # ---- follow-up workload on the same container -------------------
            model = dict(got) if is_mapping else {k: None for k in got}
            ok = True
            try:
                for k in (free[:6] + base_keys[:4]):
                    if is_mapping:
                        v = rng.choice(vals)
                        c[k] = v
                        model[k] = fam.norm_val(v)
                    else:
                        c.add(k)
                        model[k] = None
                for k in base_keys[:3] + free[:2]:
                    if k in model:
                        if is_mapping:
                            del c[k]
                        else:
                            c.remove(k)
                        del model[k]
                ks = sort_keys(list(model))
                want = [(k, model[k]) for k in ks] if is_mapping else ks
                if not eq(contents(c), want):
                    ok = False
                    d['detail'] = 'contents wrong after follow-up'
                if ok and is_tree:
                    errs, _w = hist.structural_checks(c, is_mapping,
                                                      sizes=False)
                    del _w
                    if errs:
                        ok = False
                        d['errors'] = errs[:3]
                c.clear()
            except Exception as e:
                ok = False
                d['detail'] = '%s: %s' % (type(e).__name__, e)
            if not ok:
                rec.violation('misbehaves-after-allocation-failure', **d)
            del c
            gc.collect()
        if ci == 0 and kind == 'BTree' and name.startswith('insert'):
            rec.sample(dict(desc, op=name, allocations=N))
    _OTHER[0] = None


_OTHER = [None]
_CONN = [None]
_TARGET = [None]
