"""C10 - union / intersection / difference compute the mathematical result."""
from ..harness import safe_repr as _srepr  # noqa: E402
import operator

from .. import families, gen, hist, setops
from ..families import f32, sort_keys
from ..harness import brief, eq
from ..runner import rng_for

ID = 'C10'
LEVEL = 'exploration'
RULE = ('evaluations = set-algebra calls (module functions union / '
        'intersection / difference, the operators | & - ^ and the in-place '
        'forms |= &= -= ^=) on operand pairs drawn from {Set, TreeSet, '
        'Bucket, BTree of all shapes, sorted/shuffled/duplicate-carrying '
        'lists, tuples, generators, sets, dicts, ranges, containers of the '
        'other implementation, None} in all overlap classes; the result is '
        'compared with Python set algebra (keys, order, duplicate-freeness, '
        'documented result kind, values of the first operand for '
        'difference), operands must be unchanged, in-place targets stay '
        'sound; distinct_nontrivial = distinct (impl, operation form, left '
        'operand kind, right operand kind, overlap class, result-size class) '
        'tuples')
ASSUMPTIONS = ['Python set algebra on the keys is the oracle', 'operands '
               'hold keys of the family\'s domain only']

OPS = ('union', 'intersection', 'difference')


def must_see(tier):
    m = {'big-universe': 10, }
    for impl in ('c', 'py'):
        for k in setops.CONTAINER_KINDS:
            m['%s:left:%s' % (impl, k)] = 20
            m['%s:right:%s' % (impl, k)] = 20
        for k in ('shuffled', 'dups', 'generator', 'other-impl', 'pyset',
                  'keys-view', 'values-view'):
            m['%s:right:%s' % (impl, k)] = 10
        for f in ('fn:union', 'fn:intersection', 'fn:difference', 'op:|',
                  'op:&', 'op:-', 'op:^', 'iop:|=', 'iop:&=', 'iop:-=',
                  'iop:^=', 'none-operand'):
            m['%s:%s' % (impl, f)] = 10
        m[impl + ':ghost-operands'] = 20
        m[impl + ':operand:single-child-root'] = 5
        m[impl + ':operand:height>=3'] = 20
        m[impl + ':unhashable-key-case'] = 20
    return m


def plan(tier, seed):
    q = tier == 'quick'
    specs = []
    for fam in families.FAMILY_NAMES:
        specs.append(dict(label=fam, family=fam, cases=2500 if q else 300000,
                          seed=seed, tier=tier, variant='mon',
                          timeout=900 if q else 7200))
    for fam in (['OO', 'II', 'fs'] if q else ['OO', 'II', 'fs', 'LF', 'QO',
                                               'UU', 'OI']):
        specs.append(dict(label=fam + '-asan', family=fam,
                          cases=600 if q else 30000, seed=seed + 11, tier=tier,
                          variant='asan', timeout=1500 if q else 7200))
    return specs


def overlap_class(a, b):
    sa, sb = set(a), set(b)
    if not sa or not sb:
        return 'empty'
    if sa == sb:
        return 'equal'
    if not (sa & sb):
        return 'disjoint'
    if sa <= sb or sb <= sa:
        return 'nested'
    return 'overlap'


def pick_keys(rng, uni):
    r = rng.random()
    if len(uni) > 200:
        # a BIG universe: long runs of keys on one side (whatever an
        # implementation does to get through a long operand quickly -
        # skipping, block copies, strides - happens only there) against a
        # few keys at round distances on the other
        su = families.sort_keys(list(uni))
        if r < .45:
            a = rng.choice([0, 0, rng.randrange(len(su) // 2)])
            return su[a:] if rng.random() < .7 else su[a:a + rng.randint(
                100, len(su))]
        if r < .9:
            idx = set()
            for _ in range(rng.randint(1, 6)):
                base = rng.choice([16, 32, 64, 128, 255, 256, 257, 512, 768,
                                   1024]) * rng.randint(1, 3)
                idx.add(base + rng.choice([-1, 0, 0, 0, 1]))
            return [su[i] for i in sorted(idx) if 0 <= i < len(su)]
        r = rng.random()
    if r < 0.1:
        return []
    if r < 0.2:
        return [rng.choice(uni)]
    n = rng.randint(2, len(uni))
    return rng.sample(uni, n)


def run_shard(spec, rec):
    fam = families.get(spec['family'])
    rng = rng_for(spec['seed'], ID, spec['label'])
    vals = [v for v in fam.values(rng)
            if not isinstance(v, float) or f32(v) == v]
    for i in range(spec['cases']):
        impl = 'c' if i % 2 == 0 else 'py'
        if i % 40 == 0:
            uni = fam.key_universe(rng, n=rng.choice([8, 14, 22]))
            if (i // 40) % (6 if spec['tier'] == 'quick' else 20) == 4:
                nb = rng.choice([300, 700, 1300])
                if fam.kc == 'f':
                    uni = [bytes([j // 256, j % 256]) for j in range(nb)]
                else:
                    lo_ = 0 if fam.kc in 'UQO' else -nb // 2
                    uni = list(range(lo_, lo_ + nb))
                rec.ev('big-universe')
            if fam.kc == 'O' and rng.random() < .2:
                # keys that can be ordered but not hashed (while the
                # operation runs): nothing in a set operation may hash them
                uni = [families.HKey(j) for j in range(
                    -6, rng.choice([3, 9, 16]))]
                rec.ev('unhashable-key-universes')
        run_case(fam, impl, rng, rec, uni, vals, i)


_EV = []      # shape events of operands, drained by run_case


def build_operand(fam, impl, rng, uni, vals, side, form):
    """-> (obj, keys, values-dict-or-None, kind-label, has_dups)"""
    r = rng.random()
    keys = pick_keys(rng, uni)
    container_only = (side == 'left' and form != 'fn:union' and
                      form != 'fn:intersection')
    if r < 0.6 or container_only:
        kind = rng.choice(setops.CONTAINER_KINDS)
        if form.startswith('iop') and side == 'left':
            kind = rng.choice(('Set', 'TreeSet'))
        if form == 'op:^' and side == 'left':
            kind = rng.choice(('Set', 'TreeSet'))
        c, v = setops.make_container(fam, kind, impl, keys, vals, rng, None,
                                         pool=uni)
        if kind in ('BTree', 'TreeSet') and rng.random() < .25:
            try:
                from .. import walker
                w_ = walker.walk(c, kind == 'BTree', check_sizes=False)
                if w_.single_child_root:
                    _EV.append(impl + ':operand:single-child-root')
                if w_.height >= 3:
                    _EV.append(impl + ':operand:height>=3')
            except Exception:
                pass
        return c, keys, (v if kind in ('Bucket', 'BTree') else None), kind, \
            False
    how = rng.choice(setops.ITERABLE_KINDS)
    if fam.kc == 'O' and None in keys and how != 'other-impl':
        keys = [k for k in keys if k is not None]
    obj, ks, dups = setops.make_iterable(how, keys, rng, fam, impl)
    return obj, ks, None, how, dups


FORMS = ['fn:union', 'fn:intersection', 'fn:difference', 'op:|', 'op:&',
         'op:-', 'op:^', 'iop:|=', 'iop:&=', 'iop:-=', 'iop:^=']


def apply_form(fam, impl, form, a, b):
    if form.startswith('fn:'):
        return fam.fn(form[3:], impl)(a, b)
    if form == 'op:|':
        return a | b
    if form == 'op:&':
        return a & b
    if form == 'op:-':
        return a - b
    if form == 'op:^':
        return a ^ b
    if form == 'iop:|=':
        a |= b
        return a
    if form == 'iop:&=':
        a &= b
        return a
    if form == 'iop:-=':
        a -= b
        return a
    if form == 'iop:^=':
        a ^= b
        return a
    raise AssertionError(form)


def run_case(fam, impl, rng, rec, uni, vals, i):
    if uni and isinstance(uni[0], families.HKey):
        rec.ev(impl + ':unhashable-key-case')
    form = rng.choice(FORMS)
    desc = dict(family=fam.name, impl=impl, form=form)
    # node sizes are class-global: one setting per case, made before any
    # operand of the case exists ("set before first use")
    sizes = gen.NODE_SIZES[rng.randrange(len(gen.NODE_SIZES))]
    for k_ in ('BTree', 'TreeSet'):
        for im_ in ('c', 'py'):
            cls_ = fam.cls(k_, im_)
            cls_.max_leaf_size, cls_.max_internal_size = sizes
    # ---- None operands (module functions only) ---------------------------
    if form.startswith('fn:') and rng.random() < 0.06:
        a, ka, va, kinda, _ = build_operand(fam, impl, rng, uni, vals, 'left',
                                            'fn:difference')
        fn = fam.fn(form[3:], impl)
        rec.ev(impl + ':none-operand')
        rec.evaluations += 1
        try:
            r1, r2, r3 = fn(a, None), fn(None, a), fn(None, None)
        except Exception as e:
            rec.violation('none-operand-raised', detail='%s: %s' % (
                type(e).__name__, e), **desc)
            return
        want1 = a
        want2 = None if form == 'fn:difference' else a
        if r1 is not want1 or r2 is not want2 or r3 is not None:
            rec.violation('none-operand-rule', observed=brief((r1, r2, r3)),
                          **desc)
        return
    a, ka, va, kinda, dupa = build_operand(fam, impl, rng, uni, vals, 'left',
                                           form)
    b, kb, vb, kindb, dupb = build_operand(fam, impl, rng, uni, vals, 'right',
                                           form)
    if form in ('iop:^=', 'op:^') and dupb:
        return          # toggling semantics for repeated elements: skip
    if rng.random() < 0.03 and form.startswith('iop'):
        b, kb, vb, kindb, dupb = a, ka, va, kinda, False      # s op= s
    while _EV:
        rec.ev(_EV.pop())
    sa, sb = set(ka), set(kb)
    if form in ('fn:union', 'op:|', 'iop:|='):
        wk = sa | sb
    elif form in ('fn:intersection', 'op:&', 'iop:&='):
        wk = sa & sb
    elif form in ('fn:difference', 'op:-', 'iop:-='):
        wk = sa - sb
    else:
        wk = sa ^ sb
    want_keys = sort_keys(list(wk))
    snap_a = setops.snapshot(a) if not form.startswith('iop') else None
    snap_b = setops.snapshot(b) if b is not a else None
    rec.journal(_srepr((desc, kinda, kindb, brief(ka, 200), brief(kb, 200))))
    keep_conns = None
    if i % 5 in (0, 1):
        # operands as they come out of a database: ghosts
        keep_conns, ng = setops.store_and_ghostify(
            [x for x in (a, b) if type(x).__name__.replace('Py', '').endswith(
                ('BTree', 'TreeSet', 'Bucket', 'Set'))], rec, impl + ':')
        desc['ghost_operands'] = ng
    try:
        families.HASH_REFUSED[0] = True
        try:
            r = apply_form(fam, impl, form, a, b)
        finally:
            families.HASH_REFUSED[0] = False
    except Exception as e:
        d = dict(desc, left=kinda, right=kindb, a=brief(ka, 200),
                 b=brief(kb, 200), detail='%s: %s' % (type(e).__name__, e))
        # F26: operands that are not containers of the same implementation
        # are sorted with a plain sort that does not know None is smallest
        mixed = (kinda not in setops.CONTAINER_KINDS or
                 kindb not in setops.CONTAINER_KINDS)
        for kk in (ka, kb):
            if isinstance(e, TypeError) and mixed and None in kk and \
                    any(k is not None for k in kk):
                d['finding'] = 'F26'
        # F43: the C '^' goes through Python sets: it hashes the keys
        # (any exception class: the first PySet_New() leaves its TypeError
        # pending and whatever runs next trips over it)
        if impl == 'c' and form == 'op:^' and any(
                isinstance(k, families.HKey) for k in list(ka) + list(kb)):
            d['finding'] = 'F43'
            d['unhashable_keys'] = True
        rec.violation('set-operation-raised', **d)
        return
    rec.evaluations += 1
    rec.ev('%s:%s' % (impl, form))
    rec.ev('%s:left:%s' % (impl, kinda))
    rec.ev('%s:right:%s' % (impl, kindb))
    rec.seen(impl, form, kinda, kindb, overlap_class(ka, kb),
             min(len(want_keys), 3))
    d = dict(desc, left=kinda, right=kindb, a=brief(ka, 200),
             b=brief(kb, 200))
    if dupa or dupb:
        d['dups_in_iterable'] = True
    try:
        got_keys = list(r.keys())
    except Exception as e:
        rec.violation('result-unusable', detail='%s: %s' % (
            type(e).__name__, e), **d)
        return
    if not eq(got_keys, want_keys):
        tag = None
        if (dupa or dupb) and eq(sort_keys(list(set(got_keys))), want_keys):
            tag = 'F23'
        if tag:
            d['finding'] = tag
        rec.violation('wrong-result-keys', observed=brief(got_keys, 300),
                      expected=brief(want_keys, 300), **d)
        return
    # documented result kind
    rk = setops.kind_of(r, fam)
    if form.startswith('iop'):
        if r is not a:
            rec.violation('in-place-returned-other-object', **d)
            return
        if kinda == 'TreeSet':
            # (node sizes are class-global and differ between operands:
            # no size-limit check here)
            errs, _ = hist.structural_checks(a, False, sizes=False)
            if errs:
                rec.violation('in-place-target-damaged', errors=errs[:3],
                              state=brief(a.__getstate__(), 600),
                              sizes=(type(a).max_leaf_size,
                                     type(a).max_internal_size), **d)
                return
    elif form in ('fn:difference', 'op:-'):
        wantk = 'Bucket' if va is not None else 'Set'
        if rk != wantk:
            rec.violation('wrong-result-kind', observed=rk, expected=wantk,
                          **d)
            return
        if va is not None:
            gv = list(r.items())
            wv = [(k, va[k]) for k in want_keys]
            if not eq(gv, wv):
                rec.violation('difference-lost-values',
                              observed=brief(gv, 300), expected=brief(wv, 300),
                              **d)
                return
    elif form == 'op:^':
        pass        # F15b: TreeSet ^ x is a TreeSet in C, a Set in Python
    else:
        if rk != 'Set':
            rec.violation('wrong-result-kind', observed=rk, expected='Set',
                          **d)
            return
    if not form.startswith('iop') and r is a:
        rec.violation('result-is-an-operand', **d)
        return
    # operands unchanged
    if snap_a is not None and not eq(setops.snapshot(a), snap_a) and \
            kinda not in ('generator',):
        rec.violation('left-operand-modified', **d)
        return
    if snap_b is not None and not eq(setops.snapshot(b), snap_b) and \
            kindb != 'generator':
        rec.violation('right-operand-modified', **d)
        return
    if i % 211 == 0:
        rec.sample(dict(d, result=brief(got_keys, 200), result_kind=rk))
