"""C09 - the C extension and the pure-Python fallback are interchangeable."""
import pickle

from .. import explore, families, findings, gen, harness, hist, walker
from ..families import INT_RANGES, Indexable, f32, is_duck_number
from ..harness import brief, call, eq
from ..runner import rng_for

ID = 'C09'
LEVEL = 'exploration'
RULE = ('evaluations = calls executed pairwise on XX<Kind> and XX<Kind>Py '
        'with identical arguments (generated histories in which about a '
        'quarter of the key/value arguments are replaced by hostile or '
        'boundary data: ints around +-2^31/2^32/2^63/2^64, huge ints, bools, '
        'floats incl. inf/nan, str, bytes of length 0..8, None, tuples, '
        'objects with default comparison, __index__ objects); result, '
        'exception class and ordered contents are compared after every call, '
        'tree shape incl. separators and pickle bytes every few calls; for '
        'arguments outside the domain lookups must report absence and writes '
        'must raise TypeError and change nothing, in both; '
        'distinct_nontrivial = distinct (kind, operation, argument class, '
        'argument position, outcome, multi-level?) tuples')
ASSUMPTIONS = ['families.key_ok / val_ok are an independent statement of each '
               "family's domain", 'NaN is not used as an object KEY (not '
               'totally ordered)']

LOOKUPS = ('get', 'getd', 'getitem', 'contains', 'has_key')
WRITES = ('setitem', 'insert', 'setdefault', 'add', 'sinsert')


def must_see(tier):
    m = {'hostile-key-delivered-multilevel': 500,
         'hostile-value-delivered': 300,
         'both-raised-same': 500, 'shape-and-pickle-compared': 500,
         'absolute:lookup-absent': 200, 'absolute:write-typeerror': 200,
         'view-walks': 100, 'stale-separator-trees': 10,
         'stored:sweep': 500, 'stored:commit': 100, 'big-containers': 8,
         'explore:pairs': 20000, 'explore:closed': 4}
    for lab in ('int', 'bool', 'float', 'str', 'bytes', 'none', 'tuple',
                'plain', 'index', 'ordered', 'bytearray', 'memoryview',
                'fraction', 'decimal'):
        m['hostile-class:' + lab] = 20
    return m


def plan(tier, seed):
    q = tier == 'quick'
    specs = []
    for fam in families.FAMILY_NAMES:
        specs.append(dict(label=fam, family=fam, histories=24 if q else 2000,
                          seed=seed, tier=tier, variant='mon',
                          timeout=900 if q else 7200))
    # containers far bigger than anything the histories build: leaves with
    # tens of thousands of entries, three-level trees at the default node
    # sizes, indexes beyond 32767 / 65535
    for fam in (['II', 'OO'] if q else ['II', 'OO', 'LF', 'QQ', 'fs', 'UO']):
        for kind in families.KINDS:
            specs.append(dict(label='big-%s-%s' % (fam, kind), family=fam,
                              big=kind, seed=seed, tier=tier, variant='mon',
                              n=70000 if kind in families.TREE_KINDS
                              else 70000, steps=250 if q else 2500,
                              timeout=1800 if q else 7200))
    # systematic: C and Python side by side through every operation in every
    # reachable state of a small universe: same shape (node sizes, keys per
    # leaf, separators), same contents, same pickle (vmon/explore.py)
    specs += explore.specs_for(ID, tier, seed, ['OO', 'II', 'LF'],
                               ['OO', 'II', 'LF', 'fs', 'QO', 'UU', 'OI'],
                               impls=('c',))
    if not q:
        for kind in families.KINDS:
            specs.append(dict(label='big-OO-%s-asan' % kind, family='OO',
                              big=kind, seed=seed + 1, tier=tier,
                              variant='asan', n=40000, steps=600,
                              timeout=7200))
    return specs


def big_keys(fam, n):
    if fam.kc in INT_RANGES:
        lo, hi = INT_RANGES[fam.kc]
        start = max(lo, -n)
        return [start + 2 * i for i in range(n)]
    if fam.kc == 'f':
        return [bytes([i // 256, i % 256]) for i in range(0, min(n, 65536),
                                                           1)][::1]
    return [2 * i for i in range(n)]


def run_big(spec, rec):
    """C and Python side by side on BIG containers, with a sorted list as
    the model: lookups, range searches, the lazy sequences (indexes and
    slices anywhere in 0..n, negative too), inserts and deletes."""
    import bisect
    fam = families.get(spec['family'])
    kind = spec['big']
    is_mapping = kind in families.MAPPING_KINDS
    is_tree = kind in families.TREE_KINDS
    rng = rng_for(spec['seed'], ID, spec['label'])
    keys = big_keys(fam, spec['n'])
    vals = [v for v in fam.values(rng)
            if not isinstance(v, float) or f32(v) == v]
    vals = [v for v in vals if not isinstance(v, (list, dict))]
    objs = {}
    for impl in ('c', 'py'):
        cls = fam.cls(kind, impl)
        # (this shard runs in a process of its own: the classes still have
        # their default node sizes)
        o = cls()
        if is_mapping:
            o.update([(k, vals[i % len(vals)]) for i, k in enumerate(keys)])
        else:
            o.update(keys)
        objs[impl] = o
    model = list(keys)          # sorted
    mvals = {k: vals[i % len(vals)] for i, k in enumerate(keys)} \
        if is_mapping else None
    desc = dict(family=fam.name, kind=kind, impl='c-vs-py', n=len(keys),
                big=True)
    rec.ev('big-containers')
    log = []

    def fail(mech, **kw):
        rec.violation(mech, history=[brief(x, 80) for x in log[-15:]],
                      **dict(desc, **kw))

    c, p = objs['c'], objs['py']
    absent = None
    for step in range(spec['steps']):
        n = len(model)
        r = rng.random()
        rec.evaluations += 1
        if r < 0.2 and is_tree:
            what = 'index'
            i = rng.choice([0, n - 1, -1, -n, n // 2, 32767, 32768, 65535,
                            65536, rng.randrange(-n, n)])
            log.append((what, i))
            seqs = [o.keys() for o in (c, p)]
            try:
                got = [s_[i] for s_ in seqs]
                want = model[i]
            except IndexError:
                got = want = None
                try:
                    model[i]
                    want = 'value'
                except IndexError:
                    want = 'IndexError'
                got = []
                for s_ in seqs:
                    try:
                        got.append(s_[i])
                    except IndexError:
                        got.append('IndexError')
            if any(not eq(g, want) for g in got):
                fail('big-sequence-index-wrong', index=i, observed=brief(got),
                     expected=brief(want))
                return
        elif r < 0.35 and is_tree:
            what = 'slice'
            i = rng.randrange(-n, n)
            j = i + rng.randint(-3, 40)
            log.append((what, i, j))
            want = model[i:j]
            for o in (c, p):
                got = list(o.keys()[i:j])
                if not eq(got, want):
                    fail('big-sequence-slice-wrong', i=i, j=j,
                         observed=brief(got, 200), expected=brief(want, 200))
                    return
        elif r < 0.5:
            what = 'range'
            a = model[rng.randrange(n)] if n else keys[0]
            b = model[min(n - 1, model.index(a) + rng.randint(0, 50))] \
                if n else a
            em, ex = rng.random() < .5, rng.random() < .5
            log.append((what, a, b, em, ex))
            lo_ = bisect.bisect_right(model, a) if em else \
                bisect.bisect_left(model, a)
            hi_ = bisect.bisect_left(model, b) if ex else \
                bisect.bisect_right(model, b)
            want = model[lo_:hi_]
            for o in (c, p):
                got = list(o.keys(a, b, em, ex))
                if not eq(got, want) or len(o.keys(a, b, em, ex)) != len(want):
                    fail('big-range-wrong', observed=brief(got, 200),
                         expected=brief(want, 200))
                    return
        elif r < 0.65:
            what = 'lookup'
            k = model[rng.randrange(n)] if n and rng.random() < .7 else \
                rng.choice(keys)
            log.append((what, k))
            i_ = bisect.bisect_left(model, k)
            present = i_ < n and model[i_] == k
            for o in (c, p):
                if (k in o) != present or (
                        is_mapping and present and
                        not eq(o[k], fam.norm_val(mvals[k]))):
                    fail('big-lookup-wrong', key=brief(k), expected=present)
                    return
        elif r < 0.85:
            what = 'delete'
            if not n:
                continue
            # runs of neighbouring keys: whole leaves go away
            i_ = rng.randrange(n)
            run = model[i_:i_ + rng.choice([1, 1, 1, 40, 200])]
            log.append((what, brief(run[:2]), len(run)))
            for k in run:
                for o in (c, p):
                    if is_mapping:
                        del o[k]
                    else:
                        o.remove(k)
            del model[i_:i_ + len(run)]
        else:
            what = 'insert'
            k = rng.choice(keys)
            i_ = bisect.bisect_left(model, k)
            present = i_ < n and model[i_] == k
            v = vals[step % len(vals)]
            log.append((what, k))
            for o in (c, p):
                if is_mapping:
                    o[k] = v
                else:
                    o.add(k)
            if not present:
                model.insert(i_, k)
            if is_mapping:
                mvals[k] = v
        rec.seen('big', kind, what, len(model) > 32767)
        if step % 50 == 49 or step == spec['steps'] - 1:
            for o in (c, p):
                if len(o) != len(model) or not eq(list(o.keys()), model):
                    fail('big-contents-wrong', len=len(o),
                         expected_len=len(model))
                    return
            if is_tree:
                for o in (c, p):
                    try:
                        o._check()
                    except Exception as e:
                        fail('big-tree-damaged', detail='%s: %s' % (
                            type(e).__name__, e))
                        return
            # (no whole-tree pickle here: a chain of a thousand leaves
            # exceeds the pickler's recursion limit; a database pickles node
            # by node.  Shape and separators instead.)
            if is_tree:
                wc = walker.walk(c, is_mapping, check_sizes=False).release()
                wp = walker.walk(p, is_mapping, check_sizes=False).release()
                if wc.errors or wp.errors or wc.shape != wp.shape or \
                        not eq(wc.separators, wp.separators):
                    fail('big-shapes-differ', c=brief(wc.shape, 150),
                         py=brief(wp.shape, 150),
                         errors=(wc.errors + wp.errors)[:3])
                    return
            else:
                if not eq(c.__getstate__(), p.__getstate__()):
                    fail('big-states-differ')
                    return


def run_shard(spec, rec):
    if spec.get('explore'):
        return explore.run_shard(ID, spec, rec)
    if spec.get('big'):
        run_big(spec, rec)
        return
    fam = families.get(spec['family'])
    pal = families.hostile_palette()
    for kind in families.KINDS:
        for h in range(spec['histories']):
            rng = rng_for(spec['seed'], ID, spec['label'], kind, h)
            run_history(fam, kind, rng, rec, h, pal)


def arg_ok(fam, pos, v):
    return fam.key_ok(v) if pos == 'key' else fam.val_ok(v)


def diagnose(fam, kind, op, args, hostile, oc, op_, stage, extra=None):
    """Known C-vs-Python divergences, keyed on mechanism."""
    is_tree = kind in families.TREE_KINDS
    # F15a: a non-int object with __index__ (or, as a float value, a
    # non-float object with __float__: Fraction, Decimal)
    if hostile and is_duck_number(hostile[2]):
        idx = isinstance(hostile[2], Indexable)
        if (idx and hostile[0] == 'key' and fam.kc in INT_RANGES) or \
                (idx and hostile[0] == 'value' and fam.vc in 'IULQF') or \
                (not idx and hostile[0] == 'value' and fam.vc == 'F'):
            return 'F15'
    # F35: C skips a store of an equal value (0.0 over -0.0 and vice versa)
    if fam.vc == 'F' and stage == 'pickle' and extra and \
            extra.get('zero_sign_only'):
        return 'F35'
    # F08: Python keeps doubles
    if fam.vc == 'F' and stage in ('result', 'contents', 'pickle') and \
            extra and extra.get('f32_equal'):
        return 'F08'
    if fam.vc == 'F' and stage == 'pickle' and extra and \
            extra.get('f32_contents'):
        return 'F08'
    # F14: comparison TypeError swallowed by C get/[]/discard, raised by Py;
    # Py in/has_key say False for a default-comparison object before
    # comparing, C raises
    if fam.kc == 'O' and op in ('get', 'getd', 'getitem', 'discard',
                                'contains', 'has_key', 'delitem', 'pop',
                                'popd', 'remove') and \
            stage in ('result', 'absolute'):
        a, b = oc, op_

        def absent(o):
            return (o[0] == 'exc' and o[1] == 'KeyError') or (
                o[0] == 'ok' and (o[1] is None or o[1] is False or
                                  op in ('getd', 'popd')))
        ta = a[0] == 'exc' and a[1] == 'TypeError'
        tb = b[0] == 'exc' and b[1] == 'TypeError'
        if ta != tb and (absent(a) or absent(b)):
            return 'F14'
    # F30: minKey/maxKey(unusable key) on an EMPTY container
    if op in ('minKey', 'maxKey') and stage == 'result' and extra and \
            extra.get('empty') and oc[:2] == ('exc', 'ValueError') and \
            op_[:2] == ('exc', 'TypeError'):
        return 'F30'
    # F25: Python Bucket/Set minKey()/maxKey() on empty -> IndexError
    if not is_tree and op in ('minKey', 'maxKey') and stage == 'result' and \
            op_[:2] == ('exc', 'IndexError') and oc[:2] == ('exc', 'ValueError'):
        return 'F25'
    # F26: Python &= with a plain iterable containing None and others
    if op == 'iand' and stage == 'result' and op_[:2] == ('exc', 'TypeError') \
            and oc[0] == 'ok':
        return 'F26'
    # (F28 - C rebuilt the set for &=, Python discarded in place - was
    # repaired together with F51: shape and pickle must agree after &=)
    if stage == 'pickle' and fam.name == 'fs' and extra and \
            extra.get('memo_only'):
        return 'F13'
    return None


def view_walk(c, p, is_mapping, rng, rec, fail, present):
    """keys()/values()/items() views: one view object per implementation,
    indexed / sliced / measured in the same non-monotonic order."""
    meth = rng.choice(['keys', 'values', 'items'] if is_mapping else ['keys'])
    args = ()
    r = rng.random()
    try:
        sp = sorted(k for k in present if k is not None)
    except TypeError:
        return True
    if sp and r < 0.5:
        a, b = rng.choice(sp), rng.choice(sp)
        args = (a, b) if r < 0.25 else (a,)
    elif r < 0.85:
        # every spelling of the four arguments: open ends (omitted / None)
        # with exclusive flags, bounds at the extremes of the contents
        a = rng.choice([None, None] + (sp[:1] + sp[-1:] + [rng.choice(sp)]
                                       if sp else []))
        b = rng.choice([None, None] + (sp[:1] + sp[-1:] + [rng.choice(sp)]
                                       if sp else []))
        args = (a, b, rng.random() < .6, rng.random() < .6)
        rec.ev('view-walks:flags')
    try:
        vc = getattr(c, meth)(*args)
        vp = getattr(p, meth)(*args)
    except Exception:
        return True
    n = len(present)
    rec.ev('view-walks')
    for _ in range(rng.randint(3, 10)):
        rec.evaluations += 1
        kind = rng.random()
        if kind < 0.7:
            i = rng.randint(-n - 1, n)
            what = '%s(*%s)[%d]' % (meth, brief(args), i)

            def f(v, i=i):
                return v[i]
        elif kind < 0.9:
            i, j = rng.randint(-n, n), rng.randint(-n, n)
            what = '%s(*%s)[%d:%d]' % (meth, brief(args), i, j)

            def f(v, i=i, j=j):
                return list(v[i:j])
        elif kind < 0.95:
            what = 'len(%s(*%s))' % (meth, brief(args))

            def f(v):
                return len(v)
        else:
            what = 'bool/list(%s(*%s))' % (meth, brief(args))

            def f(v):
                return (bool(v), [x for x in v])
        outs = []
        for v in (vc, vp):
            try:
                outs.append(('ok', f(v)))
            except Exception as e:
                outs.append(('exc', type(e).__name__))
        a, b = outs
        if a[0] != b[0] or (a[0] == 'exc' and a[1] != b[1]) or (
                a[0] == 'ok' and not eq(a[1], b[1])):
            fail('lazy-views-differ', None, op=what, c=brief(a), py=brief(b))
            return False
    return True


def _self_orderable(v):
    try:
        v < v
        return v == v
    except TypeError:
        return False


def run_history(fam, kind, rng, rec, h, pal):
    is_tree = kind in families.TREE_KINDS
    is_mapping = kind in families.MAPPING_KINDS
    sizes = gen.NODE_SIZES[h % len(gen.NODE_SIZES)] if is_tree else None
    if is_tree and h % 6 == 5:
        sizes = None
    cc = fam.cls(kind, 'c')
    pc = fam.cls(kind, 'py')
    if sizes:
        harness.set_node_sizes(cc, *sizes)
        harness.set_node_sizes(pc, *sizes)
    c, p = cc(), pc()
    # every third history: both containers live in a database of their own
    # and are swept (and now and then committed) before calls
    conns = None
    if h % 3 == 2:
        from .. import minidb
        conns = {}
        for impl_, o_ in (('c', c), ('py', p)):
            cn_ = minidb.Connection(minidb.Storage(), impl_)
            cn_.log_events = False
            cn_.add(o_)
            cn_.commit()
            conns[impl_] = cn_
    g = gen.HistoryGen(fam, kind, rng, adversarial=0.3)
    if sizes:
        g.max_leaf = sizes[0]
    if fam.vc == 'F' and h % 4:
        g.values = [v for v in g.values if f32(v) == v]
    log = []
    iand_seen = False
    stale_mode = False
    n = rng.randint(40, 130)
    desc = dict(family=fam.name, kind=kind, sizes=sizes, impl='c-vs-py')

    def fail(mech, tag=None, **kw):
        d = dict(desc)
        d.update(kw)
        d['history'] = [brief(x, 100) for x in log[-40:]]
        if tag:
            d['finding'] = tag
        rec.violation(mech, **d)

    for step in range(n):
        try:
            present = list(c.keys())
        except Exception:
            present = []
        w = None
        if is_tree:
            try:
                w = walker.walk(c, is_mapping)
            except Exception:
                w = None
        # ---- one lazy view object walked in the same order on both ------
        if is_tree and step % 9 == 8 and present:
            if not view_walk(c, p, is_mapping, rng, rec, fail, present):
                return
            continue
        # ---- both trees rebuilt with separators that are only lower bounds
        if is_tree and step == n // 2 and h % 3 == 1 and len(present) > 2:
            from .. import surgeon
            try:
                d0 = surgeon.describe(c, is_mapping)
                d1, nch = surgeon.loosen_separators(d0, g.universe, rng)
                if nch:
                    c2 = surgeon.build(d1, fam, kind, 'c')
                    p2 = surgeon.build(d1, fam, kind, 'py')
                    c2._check()
                    p2._check()
                    c, p = c2, p2
                    stale_mode = True
                    rec.ev('stale-separator-trees')
            except TypeError:
                pass
        sweep_now = False
        if conns is not None and not stale_mode:
            inl = False
            if is_tree:
                try:
                    inl = bool(w is not None and w.inline_nonroot) or bool(
                        walker.walk(p, is_mapping).inline_nonroot)
                except Exception:
                    inl = True
            r_ = rng.random()
            if inl:
                pass            # (F22 shape: never store it)
            elif r_ < 0.15:
                try:
                    for cn_ in conns.values():
                        cn_.commit()
                    rec.ev('stored:commit')
                except Exception:
                    # an unpicklable hostile value (memoryview, ...) was
                    # stored: the commit broke off half-way, after oids had
                    # been handed to some of the new nodes - in a different
                    # order in the two implementations.  Nothing after this
                    # point is comparable.
                    rec.ev('stored:commit-failed-history-cut')
                    return
                if conns is not None and is_tree and (
                        minidb.embedded_but_leaf_has_oid(conns['c'], c) or
                        minidb.embedded_but_leaf_has_oid(conns['py'], p)):
                    conns = None        # F34 condition: stop sweeping
            elif r_ < 0.55:
                sweep_now = True
        op, args = g.next_op(w, present)
        hostile = None
        if rng.random() < 0.27 and args:
            lab, hv = rng.choice(pal)
            if fam.kc == 'O' and not _self_orderable(hv):
                # like NaN: accepted as a key but not totally ordered, which
                # the documentation requires of keys
                lab, hv = 'none', None
            # replace the key or the value argument
            if op in ('setitem', 'insert', 'setdefault') and \
                    rng.random() < 0.45:
                args = (args[0], hv)
                hostile = ('value', lab, hv)
            elif op in harness.SINGLE_KEY_OPS or op in ('minKey', 'maxKey'):
                if fam.kc == 'O' and lab == 'float' and hv != hv:
                    pass       # no NaN keys
                else:
                    args = (hv,) + tuple(args[1:])
                    hostile = ('key', lab, hv)
            elif op == 'update' and args[0][0] != 'FAILMAP':
                pairs = list(args[0][1]) or [(rng.choice(g.universe),
                                               g._val())]
                i = rng.randrange(len(pairs))
                if rng.random() < .5:
                    if not (fam.kc == 'O' and hv != hv):
                        pairs[i] = (hv, pairs[i][1])
                        hostile = ('key', lab, hv)
                else:
                    pairs[i] = (pairs[i][0], hv)
                    hostile = ('value', lab, hv)
                args = (('PAIRS', pairs),)
            elif op == 'supdate' and args[0][0] != 'FAILITER':
                ks = list(args[0][1]) + [hv]
                if not (fam.kc == 'O' and hv != hv):
                    args = (('LIST', ks),)
                    hostile = ('key', lab, hv)
        if op == 'iand':
            iand_seen = True
        log.append((op, args))
        rec.journal(harness.safe_repr((desc, log[-30:])))
        try:
            ca = tuple(gen.materialize(a, fam, 'c', c, False) for a in args)
            pa = tuple(gen.materialize(a, fam, 'py', p, False) for a in args)
        except TypeError:
            # an operand set could not be built (keys of mixed types were
            # stored earlier in this object-keyed history)
            log.pop()
            continue
        pre = harness.contents(c, is_mapping)
        if sweep_now and conns is not None:
            # right before the call (everything above re-activated the
            # nodes): the operation itself must meet ghosts
            for cn_ in conns.values():
                cn_.cache.minimize()
            rec.ev('stored:sweep')
        oc = call(c, op, ca)
        opy = call(p, op, pa)
        rec.evaluations += 1
        multilevel = bool(w and w.height >= 2)
        if hostile:
            rec.ev('hostile-class:' + hostile[1])
            if hostile[0] == 'key' and multilevel:
                rec.ev('hostile-key-delivered-multilevel')
            if hostile[0] == 'value':
                rec.ev('hostile-value-delivered')
        outcome = oc[1] if oc[0] == 'exc' else 'ok'
        rec.seen(kind, op, hostile[1] if hostile else 'in-domain',
                 hostile[0] if hostile else '-', outcome, multilevel)
        ignore = op in ('update', 'supdate', 'ior', 'iand', 'isub', 'ixor',
                        'clear')
        same = oc[0] == opy[0] and (
            oc[1] == opy[1] if oc[0] == 'exc' else
            (ignore or eq(oc[1], opy[1])))
        if not same and op == 'setdefault' and oc[0] == 'ok' == opy[0] and \
                isinstance(oc[1], (int, float)) and \
                isinstance(opy[1], (int, float)):
            # C hands back the object that was passed in, Python the
            # converted value: the same number up to the family's conversion
            try:
                same = float(oc[1]) == float(opy[1]) or \
                    f32(float(oc[1])) == f32(float(opy[1]))
            except OverflowError:
                same = False
        if oc[0] == 'exc' and same:
            rec.ev('both-raised-same')
        if not same:
            extra = {'empty': not pre}
            if oc[0] == 'ok' == opy[0]:
                extra['f32_equal'] = findings._f32_equal(opy[1], oc[1])
            tag = diagnose(fam, kind, op, ca, hostile, oc, opy, 'result',
                           extra)
            fail('results-differ', tag, op=op, args=brief(args),
                 c=brief(oc[:2]), py=brief(opy[:2]),
                 hostile=brief(hostile[:2]) if hostile else None)
            if not tag or oc[0] != opy[0]:
                # states may have diverged; stop here.  (Compared to the
                # type: after one side accepted a write the other refused,
                # `3: True` next to `3: 1` is a diverged state - equal under
                # ==, different in every pickle from here on.)
                if harness.safe_repr(harness.contents(c, is_mapping)) != \
                        harness.safe_repr(harness.contents(p, is_mapping)):
                    return
        # ---- absolute clause for data outside the domain ----------------
        if hostile and not arg_ok(fam, hostile[0], hostile[2]) and \
                not is_duck_number(hostile[2]):
            if op in LOOKUPS and hostile[0] == 'key':
                rec.ev('absolute:lookup-absent')
                for impl, o in (('c', oc), ('py', opy)):
                    absent = (o[0] == 'exc' and o[1] == 'KeyError') or (
                        o[0] == 'ok' and (
                            o[1] is None or o[1] is False or
                            (op == 'getd' and o[1] is args[1]) or
                            (op == 'getd' and eq(o[1], args[1]))))
                    if not absent:
                        tag = diagnose(fam, kind, op, ca, hostile, oc, opy,
                                       'absolute')
                        fail('lookup-of-unusable-key-did-not-report-absence',
                             tag, impl_side=impl, op=op, args=brief(args),
                             observed=brief(o[:2]))
            if op in WRITES:
                rec.ev('absolute:write-typeerror')
                for impl, o, obj in (('c', oc, c), ('py', opy, p)):
                    # setdefault/insert of an EXISTING key with a bad value
                    # writes nothing; TypeError is still what both must do
                    if not (o[0] == 'exc' and o[1] == 'TypeError'):
                        tag = None
                        if impl == 'py' and fam.vc == 'F' and \
                                hostile[0] == 'value':
                            tag = None
                        fail('write-of-unusable-data-not-rejected', tag,
                             impl_side=impl, op=op, args=brief(args),
                             observed=brief(o[:2]))
                    elif not eq(harness.contents(obj, is_mapping), pre):
                        fail('rejected-write-changed-contents', None,
                             impl_side=impl, op=op, args=brief(args))
        # ---- contents ---------------------------------------------------
        try:
            gc_, gp = harness.contents(c, is_mapping), \
                harness.contents(p, is_mapping)
        except Exception as e:
            fail('contents-raised', None, detail='%s: %s' % (
                type(e).__name__, e))
            return
        if not eq(gc_, gp):
            tag = diagnose(fam, kind, op, ca, hostile, oc, opy, 'contents',
                           dict(f32_equal=findings._f32_equal(gp, gc_)))
            fail('contents-differ', tag, op=op, args=brief(args),
                 c=brief(gc_, 300), py=brief(gp, 300))
            return
        # ---- shape and serialized state every few calls ------------------
        # (after the rebuild with loosened separators only behaviour is
        # compared: when an interior node splits, C hands the existing
        # separator up while Python recomputes the subtree minimum - both are
        # valid separators and differ only if a stale one existed, which the
        # API alone never produces)
        if (step % 5 == 4 or step == n - 1) and not stale_mode:
            rec.ev('shape-and-pickle-compared')
            if is_tree:
                wc = walker.walk(c, is_mapping)
                wp = walker.walk(p, is_mapping)
                if wc.shape != wp.shape or not eq(wc.separators,
                                                  wp.separators):
                    tag = diagnose(fam, kind, op, ca, hostile, oc, opy,
                                   'shape', dict(iand_seen=iand_seen))
                    fail('shapes-differ', tag, c=brief(wc.shape, 200),
                         py=brief(wp.shape, 200),
                         c_seps=brief(wc.separators, 300),
                         py_seps=brief(wp.separators, 300),
                         leaves=brief(wc.leaf_keys, 300))
                    return
            try:
                dc, dp = pickle.dumps(c, 3), pickle.dumps(p, 3)
            except Exception as e:
                # unpicklable values (Plain() instances are picklable; local
                # objects are not) - both must fail alike
                continue
            if dc != dp:
                from .c06 import dumps_nomemo, differ_only_in_zero_sign
                extra = dict(iand_seen=iand_seen,
                             memo_only=dumps_nomemo(c, 3) == dumps_nomemo(p, 3),
                             zero_sign_only=differ_only_in_zero_sign(
                                 dumps_nomemo(c, 3), dumps_nomemo(p, 3)))
                if conns is not None and extra['memo_only']:
                    # nodes reloaded from separate records no longer SHARE
                    # equal key objects (a separator and the leaf key it
                    # was copied from); which ones do depends on what each
                    # cache happened to keep: object identity inside one
                    # whole-tree pickle is not serialized state (the stored
                    # records are compared by C06)
                    rec.ev('stored:memo-only-difference-ignored')
                    continue
                tag = diagnose(fam, kind, op, ca, hostile, oc, opy, 'pickle',
                               extra)
                a_, b_ = dumps_nomemo(c, 3), dumps_nomemo(p, 3)
                i_ = next((i for i in range(min(len(a_), len(b_)))
                           if a_[i] != b_[i]), min(len(a_), len(b_)))
                fail('pickles-differ', tag, len_c=len(dc), len_py=len(dp),
                     memo_only=extra['memo_only'], first_diff=i_, c_bytes=repr(a_[max(0, i_ - 30):i_ + 30]),
                     py_bytes=repr(b_[max(0, i_ - 30):i_ + 30]))
                if not tag:
                    return
    if h == 0 and kind == 'BTree':
        rec.sample(dict(desc, history=[brief(x, 80) for x in log[:12]]))
