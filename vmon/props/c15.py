"""C15 - mutating while iterating never crashes or damages the container."""
from ..harness import safe_repr as _srepr  # noqa: E402
from .. import families, gen, harness, hist, walker
from ..families import f32
from ..harness import brief, call, eq
from ..model import RefMap, RefSet, klt
from ..runner import rng_for

ID = 'C15'
LEVEL = 'exploration'
RULE = ('evaluations = steps of live iterators (iter(), iterkeys / '
        'itervalues / iteritems with and without ranges) and lazy sequences '
        '(keys() / values() / items() and their sub-slices: next, seq[i], '
        'len, slice, list) interleaved with inserts, deletes, pops and '
        'clear, the mutations being aimed at the cursor (empty and unlink '
        'the leaf it is parked on, split it, delete the entry under it, '
        'clear the tree); every step must yield an entry, end the iteration '
        'or raise RuntimeError / IndexError - anything else, including a '
        'dead worker or a sanitizer report, is a violation; afterwards the '
        'container must be sound and equal the model of the mutations; run '
        'on the assert-enabled build and on the ASan+UBSan build; '
        'distinct_nontrivial = distinct (impl, kind, cursor kind, step kind, '
        'step outcome, last mutation kind aimed at the cursor) tuples')
ASSUMPTIONS = ['a dead worker process counts as a crash of the library '
               '(workers run nothing else)']

ALLOWED = ('StopIteration', 'RuntimeError', 'IndexError')
QUICK_FAMS = ['OO', 'II', 'fs', 'LF', 'OI', 'QO']


def must_see(tier):
    m = {}
    for impl in ('c', 'py'):
        m[impl + ':cursor-leaf-unlinked'] = 20
        m[impl + ':cursor-subtree-emptied'] = 5
        m[impl + ':cursor-leaf-split'] = 20
        m[impl + ':cursor-entry-deleted'] = 20
        m[impl + ':cursor-leaf-tail-deleted'] = 20
        m[impl + ':unstarted-cursor-leaf-emptied'] = 20
        m[impl + ':iterator-outlived-clear'] = 10
        m[impl + ':outcome:StopIteration'] = 20
        m[impl + ':outcome:entry'] = 1000
        m[impl + ':stored:final-reader'] = 20
        m[impl + ':stored:sweep'] = 50
    m['c:outcome:RuntimeError'] = 10
    m['c:outcome:IndexError'] = 10
    return m


def plan(tier, seed):
    q = tier == 'quick'
    fams = QUICK_FAMS if q else list(families.FAMILY_NAMES)
    specs = []
    for fam in fams:
        for impl in ('c', 'py'):
            specs.append(dict(label='%s-%s' % (fam, impl), family=fam,
                              impl=impl, histories=30 if q else 800,
                              seed=seed, tier=tier, variant='mon',
                              timeout=900 if q else 7200))
    for fam in (['OO', 'II', 'fs'] if q else fams):
        specs.append(dict(label='%s-c-asan' % fam, family=fam, impl='c',
                          histories=8 if q else 200, seed=seed + 5, tier=tier,
                          variant='asan', timeout=1500 if q else 7200))
    return specs


class Cursor:
    def __init__(self, kind, obj, what):
        self.kind = kind      # 'iter' | 'seq'
        self.obj = obj
        self.what = what      # description
        self.last = None      # last yielded key (to aim mutations)
        self.dead = False
        self.pos = 0
        self.start = None     # lower bound of its range, if any


def make_cursor(c, rng, is_mapping, is_tree, present):
    cur = _make_cursor(c, rng, is_mapping, is_tree, present)
    a_ = _LASTARGS[0]
    cur.start = a_[0] if a_ else None
    cur.fresh = '[' not in cur.what       # (slicing already asked for len)
    return cur


_LASTARGS = [()]


def _make_cursor(c, rng, is_mapping, is_tree, present):
    r = rng.random()
    args = ()
    if present and rng.random() < .35:
        try:
            ks = [k for k in present if k is not None]
            a, b = rng.choice(ks), rng.choice(ks)
            if klt(b, a):
                a, b = b, a
            args = (a, b) if rng.random() < .6 else (a,)
        except (TypeError, IndexError):
            args = ()
    if rng.random() < .4:
        # every spelling of the four range arguments, open ends included:
        # an exclusive open end is resolved against whatever the first /
        # last leaf holds when the cursor gets there
        mn = args[0] if args else None
        mx = args[1] if len(args) > 1 else None
        if rng.random() < .5:
            mx = None
        if rng.random() < .3:
            mn = None
        args = (mn, mx, rng.random() < .5, rng.random() < .6)
    _LASTARGS[0] = args
    if r < 0.45:
        if is_mapping:
            m = rng.choice(['iter', 'iterkeys', 'itervalues', 'iteritems'])
        else:
            m = 'iter'
        if m == 'iter':
            return Cursor('iter', iter(c), 'iter()')
        return Cursor('iter', getattr(c, m)(*args), '%s%r' % (m, args))
    m = rng.choice(['keys', 'values', 'items']) if is_mapping else 'keys'
    seq = getattr(c, m)(*args)
    if r < 0.6 and is_tree:
        try:
            n = len(seq)
            i = rng.randint(0, max(0, n // 2))
            seq = seq[i:]
            return Cursor('seq', seq, '%s%r[%d:]' % (m, args, i))
        except Exception:
            pass
    if r < 0.75:
        return Cursor('iter', iter(seq), 'iter(%s%r)' % (m, args))
    return Cursor('seq', seq, '%s%r' % (m, args))


def key_of(entry, what):
    if 'items' in what and isinstance(entry, tuple) and len(entry) == 2:
        return entry[0]
    if 'values' in what:
        return None
    return entry


def run_shard(spec, rec):
    fam = families.get(spec['family'])
    impl = spec['impl']
    for h in range(spec['histories']):
        for kind in families.KINDS:
            rng = rng_for(spec['seed'], ID, spec['label'], kind, h)
            run_history(fam, kind, impl, rng, rec, h)


def run_history(fam, kind, impl, rng, rec, h):
    is_mapping = kind in families.MAPPING_KINDS
    is_tree = kind in families.TREE_KINDS
    sizes = gen.NODE_SIZES[rng.randrange(len(gen.NODE_SIZES))] if is_tree \
        else None
    if is_tree and h % 6 == 5:
        sizes = None
    # every third history: the container lives in a database; it is
    # committed / swept now and then while cursors are alive, and at the end
    # what was stored must be what the mutations produced
    conn = None
    container = None
    if h % 3 == 1:
        from .. import minidb
        container = hist.make_container(fam, kind, impl, sizes, False)
        conn = minidb.Connection(minidb.Storage(), impl)
        conn.log_events = False
        conn.add(container)
        conn.commit()
    ls = hist.LockStep(fam, kind, impl, rng, rec, sizes=sizes,
                       judge='contents', read_ops=False, adversarial=0.3,
                       container=container)
    ls.g.values = [v for v in ls.g.values
                   if not isinstance(v, float) or f32(v) == v]
    ls.g.exclude = ('iand',)
    if conn is not None:
        ls.fault_conn = conn
        ls.p_refuse = 0.04
    desc = ls.describe()
    # grow first
    for _ in range(rng.randint(5, 40)):
        if not ls.step():
            return
    cursors = []
    last_aim = 'none'
    n = rng.randint(40, 160)
    log = []

    def fail(mech, **kw):
        d = dict(desc)
        d.update(kw)
        d['trace'] = [brief(x, 100) for x in log[-40:]]
        rec.violation(mech, **d)

    def storable():
        if not is_tree:
            return True
        w_ = ls.current_walk()
        return w_ is not None and not w_.inline_nonroot

    for step in range(n):
        present = ls.m.sorted_keys()
        if conn is not None and rng.random() < 0.12:
            if rng.random() < .5:
                conn.cache.minimize()
                rec.ev(impl + ':stored:sweep')
            elif storable():
                conn.commit()
                rec.ev(impl + ':stored:commit')
                from .. import minidb as _mdb
                if is_tree and _mdb.embedded_but_leaf_has_oid(conn, ls.c):
                    conn = None         # F34 condition: plain from here on
        r = rng.random()
        if len(cursors) < 3 and (r < 0.12 or not cursors):
            try:
                cur = make_cursor(ls.c, rng, is_mapping, is_tree, present)
            except Exception as e:
                fail('cursor-creation-raised', detail='%s: %s' % (
                    type(e).__name__, e))
                return
            cursors.append(cur)
            log.append(('new', cur.what))
            continue
        if r < 0.5 and cursors:
            # ---- step a cursor -------------------------------------------
            cur = rng.choice(cursors)
            rec.journal(_srepr((desc, ls.log[-25:], log[-25:])))
            try:
                if cur.kind == 'iter':
                    stepk = 'next'
                    out = ('ok', next(cur.obj))
                else:
                    q = rng.random()
                    if q < 0.6:
                        i = cur.pos if rng.random() < .6 else rng.randint(
                            -len(present) - 1, len(present) + 1)
                        cur.pos = i + 1 if i >= 0 else 0
                        stepk = 'index'
                        out = ('ok', cur.obj[i])
                    elif q < 0.75:
                        stepk = 'len'
                        out = ('len', len(cur.obj))
                    elif q < 0.9:
                        i, j = rng.randint(-3, 6), rng.randint(-3, 12)
                        stepk = 'slice'
                        out = ('list', list(cur.obj[i:j]))
                    else:
                        stepk = 'list'
                        out = ('list', list(cur.obj))
            except Exception as e:
                out = ('exc', type(e).__name__, str(e)[:120])
            rec.evaluations += 1
            log.append((stepk, cur.what, brief(out, 80)))
            if out[0] == 'exc':
                rec.ev('%s:outcome:%s' % (impl, out[1]))
                rec.seen(impl, kind, cur.kind, stepk, out[1], last_aim)
                if out[1] not in ALLOWED or (
                        out[1] == 'StopIteration' and stepk != 'next'):
                    # (StopIteration ends an ITERATION; an indexed access
                    # answers IndexError)
                    fail('step-raised-unexpected-exception', step=stepk,
                         cursor=cur.what, observed=out[1], detail=out[2])
                    return
                if out[1] == 'StopIteration':
                    cursors.remove(cur)
            else:
                rec.ev(impl + ':outcome:entry')
                rec.seen(impl, kind, cur.kind, stepk, 'entry', last_aim)
                if out[0] == 'ok':
                    cur.last = key_of(out[1], cur.what)
                    if 'items' in cur.what and not (
                            isinstance(out[1], tuple) and len(out[1]) == 2):
                        fail('step-yielded-malformed-entry', step=stepk,
                             cursor=cur.what, observed=brief(out[1]))
                        return
            continue
        # ---- mutate, preferably aimed at a cursor ---------------------------
        aim = None
        cur = rng.choice(cursors) if cursors else None
        w = ls.current_walk() if is_tree else None
        if w is not None:
            w.release()
        if conn is not None and rng.random() < .5:
            # (the walk re-activated every node: sweep again so that the
            # mutation itself meets ghosts)
            conn.cache.minimize()
        if cur is not None and cur.last is None and \
                getattr(cur, 'fresh', False) and w is not None and \
                w.leaf_keys and rng.random() < 0.5:
            # a cursor that has NOT BEEN USED yet: the leaf its range
            # starts in (or the last leaf of the tree) is emptied before
            # the first step resolves the range
            leaf = None
            for lk in w.leaf_keys:
                try:
                    if cur.start is None or not klt(lk[-1], cur.start):
                        leaf = lk
                        break
                except TypeError:
                    break
            if leaf is None or rng.random() < .4:
                leaf = w.leaf_keys[-1]
            aim = 'unstarted-cursor-leaf-emptied'
            cur.fresh = False
            ok = True
            for kk in list(leaf):
                ok = ok and ls.step('delitem' if is_mapping else 'remove',
                                    (kk,))
            rec.ev('%s:%s' % (impl, aim))
            last_aim = aim
            log.append(('mutate', aim))
            if not ok:
                return
        elif cur is not None and cur.last is not None and rng.random() < 0.6:
            k = cur.last
            leaf = None
            if w is not None:
                for lk in w.leaf_keys:
                    if k in lk:
                        leaf = lk
                        break
            q = rng.random()
            try:
                if q < 0.25 and k in ls.m._keys():
                    aim = 'cursor-entry-deleted'
                    ok = ls.step('delitem' if is_mapping else 'remove', (k,))
                elif q < 0.4 and leaf is not None and len(leaf) >= 2 and \
                        k in leaf and leaf.index(k) < len(leaf) - 1:
                    # the cursor's leaf loses entries BEHIND the cursor and
                    # stays in the tree (a range computed when the cursor
                    # entered the leaf now reaches beyond its end)
                    aim = 'cursor-leaf-tail-deleted'
                    ok = True
                    tail = leaf[leaf.index(k) + 1:]
                    for kk in tail[rng.randrange(len(tail)):]:
                        ok = ok and ls.step('delitem' if is_mapping
                                            else 'remove', (kk,))
                elif q < 0.65 and leaf is not None and len(w.leaf_keys) > 1:
                    aim = 'cursor-leaf-unlinked'
                    ok = True
                    victims = list(leaf)
                    if w.height >= 3 and rng.random() < .6:
                        # the whole bottom-level node the cursor's leaf
                        # hangs under (an interior node goes away)
                        li_ = w.leaf_keys.index(leaf)
                        par = tuple(w.leaf_paths[li_][:-1])
                        sib = [lk for lk, pth in zip(w.leaf_keys,
                                                     w.leaf_paths)
                               if tuple(pth[:-1]) == par]
                        if 0 < len(sib) < len(w.leaf_keys):
                            victims = [kk for lk in sib for kk in lk]
                            aim = 'cursor-subtree-emptied'
                    if rng.random() < .5:
                        victims.reverse()       # right to left
                    for kk in victims:
                        ok = ok and ls.step('delitem' if is_mapping
                                            else 'remove', (kk,))
                elif q < 0.85 and leaf is not None:
                    aim = 'cursor-leaf-split'
                    lo, hi = leaf[0], leaf[-1]
                    ins = [x for x in ls.g.universe
                           if x is not None and x not in ls.m._keys() and
                           klt(lo, x) and klt(x, hi)][:4]
                    if not ins:
                        ins = [x for x in ls.g.universe
                               if x not in ls.m._keys()][:3]
                    ok = True
                    for x in ins:
                        ok = ok and ls.step(
                            'setitem' if is_mapping else 'add',
                            (x, ls.g._val()) if is_mapping else (x,))
                elif rng.random() < .25:
                    aim = 'iterator-outlived-clear'
                    ok = ls.step('clear', ())
                else:
                    ok = ls.step()
            except TypeError:
                ok = True
                aim = None
            if aim:
                rec.ev('%s:%s' % (impl, aim))
                if conn is not None:
                    rec.ev('%s:stored:%s' % (impl, aim))
                last_aim = aim
                log.append(('mutate', aim))
                if conn is not None and rng.random() < .4:
                    # let the cache have whatever the mutation did not
                    # register
                    conn.cache.minimize()
                    rec.ev(impl + ':stored:sweep')
            if not ok:
                return
        else:
            if not ls.step():
                return
            last_aim = 'random'
            log.append(('mutate', brief(ls.log[-1], 60)))
    # ---- afterwards: sound and equal to the model ---------------------------
    del cursors
    if conn is not None and storable():
        # what reached the database, seen by the writer after a sweep and by
        # a fresh reader
        try:
            conn.commit()
            conn.cache.minimize()
            from .. import minidb as _mdb
            r_ = _mdb.Connection(conn.storage, impl)
            r_.log_events = False
            fresh = r_.get(ls.c._p_oid)
            gotf = harness.contents(fresh, is_mapping)
            errsf = hist.structural_checks(fresh, is_mapping)[0] \
                if is_tree else []
        except Exception as e:
            fail('stored-container-unreadable-afterwards', detail='%s: %s' % (
                type(e).__name__, e))
            return
        rec.ev(impl + ':stored:final-reader')
        if not eq(gotf, ls.m.contents()) or errsf:
            fail('stored-container-differs-from-mutations',
                 observed=brief(gotf, 300), expected=brief(ls.m.contents(), 300),
                 errors=errsf[:3])
            return
    try:
        got = harness.contents(ls.c, is_mapping)
    except Exception as e:
        fail('contents-unreadable-afterwards', detail='%s: %s' % (
            type(e).__name__, e))
        return
    if not eq(got, ls.m.contents()):
        fail('contents-differ-from-mutations', observed=brief(got, 300),
             expected=brief(ls.m.contents(), 300))
        return
    if is_tree:
        errs, _w = hist.structural_checks(ls.c, is_mapping)
        if errs:
            fail('container-damaged-by-iteration', errors=errs[:3])
            return
    if h == 0 and kind == 'BTree':
        rec.sample(dict(desc, trace=[brief(x, 80) for x in log[:14]]))
