"""C19 - Length is a conflict-free counter."""
import copy
import pickle

from .. import minidb
from ..harness import brief
from ..runner import rng_for

ID = 'C19'
LEVEL = 'exploration'
RULE = ('evaluations = (old, a, b) integer triples handed to '
        'Length._p_resolveConflict in both argument orders (magnitudes 0, '
        '+-1, +-2^31, +-2^63, +-2^64, random up to 2^4096, equal deltas, '
        'zero deltas), plus histories of set/change/__call__/__getstate__/'
        '__setstate__/pickle/copy against an int model (including states of '
        '0 and subclasses with another class-level default), plus '
        'two-connection schedules through MiniDB (both commit orders, fresh '
        'reader); distinct_nontrivial = distinct (check kind, magnitude '
        'class of old, sign/size class of a, of b, equal-deltas?) tuples')
ASSUMPTIONS = ['integers are sampled; MiniDB stands in for ZODB for the '
               'two-connection schedules']


def must_see(tier):
    return {'resolve-triples': 5000, 'equal-deltas': 100, 'zero-delta': 100,
            'db-schedules': 100, 'cell-histories': 100,
            'setstate-zero-on-live': 20, 'subclass-default': 20}


def plan(tier, seed):
    q = tier == 'quick'
    return [dict(label='len-%d' % i, seed=seed, part=i, tier=tier,
                 n=20000 if q else 3000000, variant='mon', timeout=3000)
            for i in range(4 if q else 16)]


_QUOTA = []


def _quota_class():
    """A subclass with another class-level default (module level so that it
    pickles)."""
    if not _QUOTA:
        from BTrees.Length import Length

        class Quota(Length):
            value = 100
        Quota.__module__ = __name__
        Quota.__qualname__ = 'Quota'
        globals()['Quota'] = Quota
        _QUOTA.append(Quota)
    return _QUOTA[0]


def mag(x):
    a = abs(x)
    return (0 if a == 0 else 1 if a < 2 ** 31 else 2 if a < 2 ** 63 else
            3 if a < 2 ** 65 else 4) * (1 if x >= 0 else -1)


def rand_int(rng):
    r = rng.random()
    if r < .15:
        return rng.choice([0, 1, -1, 2, -2])
    if r < .4:
        b = rng.choice([31, 32, 63, 64])
        return rng.choice([1, -1]) * (2 ** b + rng.randint(-2, 2))
    if r < .7:
        return rng.randint(-1000, 1000)
    return rng.choice([1, -1]) * rng.getrandbits(rng.choice([70, 200, 1000,
                                                               4096]))


def run_shard(spec, rec):
    from BTrees.Length import Length
    rng = rng_for(spec['seed'], ID, spec['label'])
    # ---- resolution formula ---------------------------------------------
    L = Length()
    for i in range(spec['n']):
        old = rand_int(rng)
        a = rand_int(rng)
        r = rng.random()
        b = a if r < .1 else 0 if r < .15 else rand_int(rng)
        rec.evaluations += 1
        rec.ev('resolve-triples')
        if a == b:
            rec.ev('equal-deltas')
        if a == 0 or b == 0:
            rec.ev('zero-delta')
        rec.seen('resolve', mag(old), mag(a), mag(b), a == b)
        want = old + a + b
        r1 = L._p_resolveConflict(old, old + a, old + b)
        r2 = L._p_resolveConflict(old, old + b, old + a)
        if r1 != want or r2 != want or type(r1) is not int:
            rec.violation('resolution-lost-or-invented-an-update',
                          old=brief(old, 60), a=brief(a, 60), b=brief(b, 60),
                          observed=brief((r1, r2), 140),
                          expected=brief(want, 70))
            break
        if i % 5000 == 0:
            rec.sample(dict(old=brief(old, 40), a=brief(a, 40),
                            b=brief(b, 40), resolved=brief(r1, 40)))
    # ---- plain integer cell that survives pickling ------------------------

    Quota = _quota_class()
    for h in range(spec['n'] // 150):
        cls = Length if h % 3 else Quota
        init = rand_int(rng)
        if cls is Quota and h % 2:
            # created without __init__ (as unpickling does): the class-level
            # default applies until a state is set
            o = cls.__new__(cls)
            model = 100
            rec.ev('subclass-default')
        else:
            o = cls(init)
            model = init
        rec.ev('cell-histories')
        for step in range(rng.randint(3, 15)):
            r = rng.random()
            rec.evaluations += 1
            if r < .3:
                d = rand_int(rng)
                o.change(d)
                model += d
                what = 'change'
            elif r < .5:
                v = rng.choice([0, 0, rand_int(rng)])
                o.set(v)
                model = v
                what = 'set'
            elif r < .6:
                o = pickle.loads(pickle.dumps(o, rng.randint(0, 5)))
                what = 'pickle'
            elif r < .65:
                o = copy.deepcopy(o) if r < .625 else copy.copy(o)
                what = 'copy'
            elif r < .8:
                # state transplanted into a LIVE object holding another value
                dst = cls(rng.choice([7, -3, 10 ** 30]))
                dst.__setstate__(o.__getstate__())
                if o.__getstate__() == 0:
                    rec.ev('setstate-zero-on-live')
                o = dst
                what = 'setstate-on-live'
            else:
                what = 'read'
            got = (o(), o.value, o.__getstate__())
            rec.seen('cell', what, mag(model), type(o).__name__)
            if got != (model, model, model):
                rec.violation('not-a-plain-integer-cell', after=what,
                              observed=brief(got, 200),
                              expected=brief(model, 80),
                              cls=cls.__name__)
                break
    # ---- two connections through MiniDB -------------------------------------
    for s in range(spec['n'] // 200):
        old, a, b = rand_int(rng), rand_int(rng), rand_int(rng)
        if s % 7 == 0:
            b = a
        st = minidb.Storage()
        c0 = minidb.Connection(st, 'c')
        ln = Length(old)
        oid = c0.add(ln)
        c0.commit()
        c1, c2 = minidb.Connection(st, 'c'), minidb.Connection(st, 'c')
        l1, l2 = c1.get(oid), c2.get(oid)
        l1.change(a)
        l2.change(b)
        first, second = (c1, c2) if s % 2 else (c2, c1)
        rec.evaluations += 1
        rec.ev('db-schedules')
        rec.seen('db', mag(old), mag(a), mag(b), a == b, s % 2)
        try:
            first.commit()
            second.commit()
        except Exception as e:
            rec.violation('length-commit-conflicted', detail='%s: %s' % (
                type(e).__name__, e), old=brief(old, 60))
            continue
        got = minidb.Connection(st, 'c').get(oid)()
        if got != old + a + b:
            rec.violation('concurrent-change-lost', observed=brief(got, 80),
                          expected=brief(old + a + b, 80), old=brief(old, 60),
                          a=brief(a, 60), b=brief(b, 60))
