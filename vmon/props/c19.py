"""C19 - Length is a conflict-free counter."""
import copy
import pickle

from .. import minidb
from ..harness import brief
from ..runner import rng_for

ID = 'C19'
LEVEL = 'exploration'
RULE = ('evaluations = (old, a, b) integer triples handed to '
        'Length._p_resolveConflict in both argument orders (magnitudes 0, '
        '+-1, +-2^31, +-2^63, +-2^64, random up to 2^4096, equal deltas, '
        'zero deltas), plus histories of set/change/__call__/__getstate__/'
        '__setstate__/pickle/copy against an int model (including states of '
        '0 and subclasses with another class-level default), plus '
        'two-connection schedules through MiniDB (both commit orders, fresh '
        'reader); distinct_nontrivial = distinct (check kind, magnitude '
        'class of old, sign/size class of a, of b, equal-deltas?) tuples')
ASSUMPTIONS = ['integers are sampled; MiniDB stands in for ZODB for the '
               'two-connection schedules']


def _safe_str(e):
    try:
        return str(e)[:200]
    except Exception as e2:
        return '<str() of the exception raised %s>' % type(e2).__name__


def must_see(tier):
    return {'resolve-triples': 5000, 'equal-deltas': 100, 'zero-delta': 100,
            'db-schedules': 100, 'cell-histories': 100,
            'setstate-zero-on-live': 20, 'subclass-default': 20,
            'session-steps': 500, 'session:commit': 50, 'session:evict': 30,
            'session:abort': 20, 'session:attr': 20,
            'session:registration-refused': 10,
            'db-schedules:extra-attribute': 30}


def plan(tier, seed):
    q = tier == 'quick'
    return [dict(label='len-%d' % i, seed=seed, part=i, tier=tier,
                 n=20000 if q else 3000000, variant='mon', timeout=3000)
            for i in range(4 if q else 16)]


_QUOTA = []


def _quota_class():
    """A subclass with another class-level default (module level so that it
    pickles)."""
    if not _QUOTA:
        from BTrees.Length import Length

        class Quota(Length):
            value = 100
        Quota.__module__ = __name__
        Quota.__qualname__ = 'Quota'
        globals()['Quota'] = Quota
        _QUOTA.append(Quota)
    return _QUOTA[0]


def mag(x):
    a = abs(x)
    return (0 if a == 0 else 1 if a < 2 ** 31 else 2 if a < 2 ** 63 else
            3 if a < 2 ** 65 else 4 if a.bit_length() < 14000 else 5) * (
                1 if x >= 0 else -1)


def bi(x, n=60):
    """brief() for integers of any size (repr() of a huge int raises)."""
    if isinstance(x, (tuple, list)):
        return '(%s)' % ', '.join(bi(y, n) for y in x)
    if isinstance(x, int) and not isinstance(x, bool):
        h = hex(x)
        return h if len(h) <= n else '%s...(%d bits)' % (h[:n], x.bit_length())
    return brief(x, n)


def rand_int(rng):
    r = rng.random()
    if r < .15:
        return rng.choice([0, 1, -1, 2, -2])
    if r < .4:
        b = rng.choice([31, 32, 63, 64])
        return rng.choice([1, -1]) * (2 ** b + rng.randint(-2, 2))
    if r < .7:
        return rng.randint(-1000, 1000)
    # (15000 and 40000 bits are beyond CPython's 4300-digit limit for
    # int <-> str conversion: nothing on the way may format the number)
    return rng.choice([1, -1]) * rng.getrandbits(rng.choice(
        [70, 200, 1000, 4096, 15000, 40000]))


def run_shard(spec, rec):
    from BTrees.Length import Length
    rng = rng_for(spec['seed'], ID, spec['label'])
    # ---- resolution formula ---------------------------------------------
    L = Length()
    for i in range(spec['n']):
        old = rand_int(rng)
        a = rand_int(rng)
        r = rng.random()
        b = a if r < .1 else 0 if r < .15 else rand_int(rng)
        rec.evaluations += 1
        rec.ev('resolve-triples')
        if a == b:
            rec.ev('equal-deltas')
        if a == 0 or b == 0:
            rec.ev('zero-delta')
        rec.seen('resolve', mag(old), mag(a), mag(b), a == b)
        want = old + a + b
        try:
            r1 = L._p_resolveConflict(old, old + a, old + b)
            r2 = L._p_resolveConflict(old, old + b, old + a)
        except Exception as e:
            rec.violation('resolution-raised', detail='%s: %s' % (
                type(e).__name__, _safe_str(e)), old=bi(old), a=bi(a),
                b=bi(b))
            break
        if r1 != want or r2 != want or type(r1) is not int:
            rec.violation('resolution-lost-or-invented-an-update',
                          old=bi(old), a=bi(a), b=bi(b),
                          observed=bi((r1, r2), 70),
                          expected=bi(want, 70))
            break
        if i % 5000 == 0:
            rec.sample(dict(old=bi(old, 40), a=bi(a, 40),
                            b=bi(b, 40), resolved=bi(r1, 40)))
    # ---- plain integer cell that survives pickling ------------------------

    Quota = _quota_class()
    for h in range(spec['n'] // 150):
        cls = Length if h % 3 else Quota
        init = rand_int(rng)
        if cls is Quota and h % 2:
            # created without __init__ (as unpickling does): the class-level
            # default applies until a state is set
            o = cls.__new__(cls)
            model = 100
            rec.ev('subclass-default')
        else:
            o = cls(init)
            model = init
        rec.ev('cell-histories')
        for step in range(rng.randint(3, 15)):
            r = rng.random()
            rec.evaluations += 1
            if r < .3:
                d = rand_int(rng)
                o.change(d)
                model += d
                what = 'change'
            elif r < .5:
                v = rng.choice([0, 0, rand_int(rng)])
                o.set(v)
                model = v
                what = 'set'
            elif r < .6:
                proto = rng.randint(0, 5)
                if abs(model).bit_length() > 14000:
                    # text protocols write ints in decimal: CPython itself
                    # refuses beyond 4300 digits
                    proto = max(proto, 2)
                o = pickle.loads(pickle.dumps(o, proto))
                what = 'pickle'
            elif r < .65:
                o = copy.deepcopy(o) if r < .625 else copy.copy(o)
                what = 'copy'
            elif r < .8:
                # state transplanted into a LIVE object holding another value
                dst = cls(rng.choice([7, -3, 10 ** 30]))
                dst.__setstate__(o.__getstate__())
                if o.__getstate__() == 0:
                    rec.ev('setstate-zero-on-live')
                o = dst
                what = 'setstate-on-live'
            else:
                what = 'read'
            got = (o(), o.value, o.__getstate__())
            rec.seen('cell', what, mag(model), type(o).__name__)
            if got != (model, model, model):
                rec.violation('not-a-plain-integer-cell', after=what,
                              observed=bi(got, 80),
                              expected=bi(model, 80),
                              cls=cls.__name__)
                break
    # ---- two connections through MiniDB -------------------------------------
    for s in range(spec['n'] // 200):
        old, a, b = rand_int(rng), rand_int(rng), rand_int(rng)
        if s % 7 == 0:
            b = a
        st = minidb.Storage()
        c0 = minidb.Connection(st, 'c')
        ln = Length(old)
        oid = c0.add(ln)
        c0.commit()
        c1, c2 = minidb.Connection(st, 'c'), minidb.Connection(st, 'c')
        l1, l2 = c1.get(oid), c2.get(oid)
        if s % 5 == 1:
            # application data hung on the counter object by ONE of the two
            # transactions (whatever becomes of the attribute, the three
            # states handed to the resolver must still add up)
            (l1 if s % 2 else l2).note = 'x'
            rec.ev('db-schedules:extra-attribute')
        elif s % 5 == 2:
            l1.note = l2.note = ('y', s)
            rec.ev('db-schedules:extra-attribute')
        l1.change(a)
        l2.change(b)
        first, second = (c1, c2) if s % 2 else (c2, c1)
        rec.evaluations += 1
        rec.ev('db-schedules')
        rec.seen('db', mag(old), mag(a), mag(b), a == b, s % 2)
        try:
            first.commit()
            second.commit()
        except Exception as e:
            rec.violation('length-commit-conflicted', detail='%s: %s' % (
                type(e).__name__, e), old=bi(old))
            continue
        got = minidb.Connection(st, 'c').get(oid)()
        if got != old + a + b:
            rec.violation('concurrent-change-lost', observed=bi(got, 80),
                          expected=bi(old + a + b, 80), old=bi(old),
                          a=bi(a), b=bi(b))

    # ---- long-lived connections: many transactions on a LOADED counter ------
    for s in range(spec['n'] // 400):
        run_sessions(rng, rec, Length, s)


class _Sess:
    """Model of one MiniDB connection's view of the counter."""

    def __init__(self, conn, obj):
        self.conn, self.obj = conn, obj
        self.loaded = False
        self.lv = self.base = None
        self.serial = None
        self.dirty = False


def run_sessions(rng, rec, Length, s):
    """Two long-lived connections run several transactions each (change, set,
    read, commit, abort, eviction) on a counter they LOADED from the
    database; after every commit a fresh reader must see the model value:
    no committed update may be lost, whatever the object went through
    between its load and its n-th transaction."""
    st = minidb.Storage()
    c0 = minidb.Connection(st, 'c')
    cv = rand_int(rng) if rng.random() < .3 else rng.randint(-5, 5)
    oid = c0.add(Length(cv))
    c0.commit()
    hist_vals = {st.tid: cv}       # committed value per tid
    sess = []
    for _ in range(2):
        conn = minidb.Connection(st, 'c')
        sess.append(_Sess(conn, conn.get(oid)))
    log = []

    def activate(x):
        if not x.loaded:
            x.loaded = True
            x.serial = st.current_tid(oid)
            x.lv = x.base = hist_vals[x.serial]

    for step in range(rng.randint(6, 30)):
        x = sess[rng.randrange(2) if rng.random() < .35 else 0]
        r = rng.random()
        small = rng.random() < .8
        if r < .30:
            d = rng.choice([1, -1, 2, -2, 3]) if small else rand_int(rng)
            what = ('change', sess.index(x), d)
            activate(x)
            x.obj.change(d)
            x.lv += d
            x.dirty = True
        elif r < .36:
            v = rng.randint(-3, 3) if small else rand_int(rng)
            what = ('set', sess.index(x), v)
            activate(x)
            x.obj.set(v)
            x.lv = v
            x.dirty = True
        elif .40 <= r < .44 and not x.dirty:
            # the data manager refuses to take the object into its
            # transaction (register() raises): the update is refused as a
            # whole - a value that shows the change anyway would survive the
            # abort that has to follow (only registered objects are
            # invalidated) and be written by a later transaction
            d = rng.choice([1, -1, 5])
            what = ('refused', sess.index(x), d)
            activate(x)
            x.conn.fail_register = 1
            try:
                if rng.random() < .5:
                    x.obj.change(d)
                else:
                    x.obj.set(x.lv + d)
                refused = False
            except minidb.DMBoom:
                refused = True
            finally:
                x.conn.fail_register = 0
            if refused:
                rec.ev('session:registration-refused')
            else:
                # (already registered after all: an ordinary update)
                x.lv += d
                x.dirty = True
        elif r < .40:
            # an application attribute on the counter object: the object is
            # modified (and written), its value is not
            what = ('attr', sess.index(x))
            activate(x)
            setattr(x.obj, rng.choice(['note', 'owner']), step)
            x.dirty = True
        elif r < .58:
            what = ('commit', sess.index(x))
            cur = st.current_tid(oid)
            try:
                x.conn.commit()
            except Exception as e:
                rec.violation('length-commit-conflicted', detail='%s: %s' % (
                    type(e).__name__, e), history=brief(log[-20:], 500))
                return
            if x.dirty:
                if x.serial == cur:
                    cv = x.lv
                    x.base = cv
                else:
                    # resolved against what was committed meanwhile; the
                    # resolved object is invalidated by the data manager
                    cv = cv + (x.lv - x.base)
                    x.loaded = False
                hist_vals[st.tid] = cv
                x.serial = st.tid
                x.dirty = False
        elif r < .66:
            what = ('abort', sess.index(x))
            x.conn.abort()
            if x.dirty:
                x.loaded = False
                x.dirty = False
        elif r < .78:
            what = ('evict', sess.index(x))
            if rng.random() < .5:
                x.obj._p_deactivate()
            else:
                x.conn.cache.minimize()
            if x.loaded and not x.dirty:
                x.loaded = False
        else:
            what = ('read', sess.index(x))
            activate(x)
        log.append(what)
        rec.evaluations += 1
        rec.ev('session-steps')
        rec.ev('session:' + what[0])
        rec.seen('session', what[0], x.dirty, x.loaded)
        if what[0] in ('change', 'set', 'read', 'attr', 'refused'):
            got = x.obj()
            if got != x.lv:
                rec.violation('loaded-counter-shows-wrong-value',
                              after=brief(what, 80), observed=bi(got, 80),
                              expected=bi(x.lv, 80),
                              history=brief(log[-20:], 500))
                return
        if what[0] == 'commit':
            got = minidb.Connection(st, 'c').get(oid)()
            if got != cv:
                rec.violation('committed-update-lost', observed=bi(got, 80),
                              expected=bi(cv, 80),
                              history=brief(log[-20:], 500))
                return
        if x.dirty and not x.obj._p_changed:
            # (the modified counter would be evictable and skipped at commit)
            rec.violation('modified-counter-not-marked-changed',
                          after=brief(what, 80),
                          history=brief(log[-20:], 500))
            return
