"""C03 - a container used only through its API is never internally damaged."""
from .. import explore, families, gen, hist, minidb
from ..runner import rng_for

ID = 'C03'
LEVEL = 'exploration'
RULE = ('evaluations = public calls on BTree/TreeSet; after every mutating '
        'call t._check(), BTrees.check.check(t) and the independent walker '
        '(chain == descent leaves, key order, separator intervals, node-size '
        'limits) are run (events["structure-checks"] counts them); '
        'distinct_nontrivial = distinct (impl, kind, operation, outcome, '
        'tree-shape class) tuples observed')
ASSUMPTIONS = ['vmon/walker.py is an independent statement of the structural '
               'invariants', 'histories are sampled']

EVENTS = ['leaf_split', 'interior_split', 'root_split', 'unlink_first',
          'unlink_middle', 'unlink_last', 'interior_removed', 'height>=3',
          'clear_multilevel', 'single_child_root', 'full_leaf_split',
          'full_interior_split', 'full_root_split', 'separator_refresh',
          'firstbucket_handoff_deep']


def must_see(tier):
    m = {'structure-checks': 1000, 'explore:closed': 4,
         'explore:c:closed': 2, 'explore:py:closed': 2,
         'explore:states': 5000}
    for impl in ('c', 'py'):
        m[impl + ':stored:sweep'] = 300
        m[impl + ':stored:commit'] = 300
        m[impl + ':load-refused:write'] = 30
        m[impl + ':load-refused:read'] = 3
        for e in EVENTS:
            m['%s:%s' % (impl, e)] = 1
    return m


def plan(tier, seed):
    specs = []
    nh = 10 if tier == 'quick' else 120
    for fam in families.FAMILY_NAMES:
        for impl in ('c', 'py'):
            specs.append(dict(label='%s-%s' % (fam, impl), family=fam,
                              impl=impl, histories=nh, seed=seed, tier=tier,
                              variant='mon', timeout=900 if tier == 'quick'
                              else 7200))
    if tier == 'thorough':
        for fam in families.FAMILY_NAMES:
            specs.append(dict(label='%s-c-asan' % fam, family=fam, impl='c',
                              histories=30, seed=seed + 1000, tier=tier,
                              variant='asan', timeout=7200))
    # systematic: every operation in every reachable state of a small
    # universe (vmon/explore.py)
    specs += explore.specs_for(ID, tier, seed, ['OO', 'II'],
                               ['OO', 'II', 'fs', 'LF'])
    return specs


def run_shard(spec, rec):
    if spec.get('explore'):
        return explore.run_shard(ID, spec, rec)
    fam = families.get(spec['family'])
    impl = spec['impl']
    for kind in families.TREE_KINDS:
        for h in range(spec['histories']):
            rng = rng_for(spec['seed'], ID, spec['family'], impl, kind, h)
            sizes = None
            via_sub = False
            if h % 9 != 8:
                sizes = gen.NODE_SIZES[h % len(gen.NODE_SIZES)]
                via_sub = (h % 2 == 1)
            # every fourth history: the tree lives in a database, is
            # committed and swept between calls - a change that is not
            # registered is lost at the next sweep and the reloaded node no
            # longer fits its neighbours
            stored = h % 4 == 2
            container = None
            if stored:
                via_sub = False
                container = hist.make_container(fam, kind, impl, sizes, False)
                conn = minidb.Connection(minidb.Storage(), impl)
                conn.log_events = False
                conn.add(container)
                conn.commit()
            ls = hist.LockStep(fam, kind, impl, rng, rec, sizes=sizes,
                               via_subclass=via_sub, structure=True,
                               adversarial=0.45, read_ops=(h % 3 == 0),
                               judge=False, container=container)
            if stored:
                ls.fault_conn = conn
                ls.p_refuse = 0.05
                # ... and now and then refuses a load inside a single-key
                # call made right after a sweep
                ls.p_loadfail = 0.15
                state = {'stop': False}

                def sweep_hook(ls_, op, args, conn=conn, state=state,
                               rng=rng):
                    if state['stop']:
                        return True
                    w = ls_.walk
                    if w is not None and w.inline_nonroot:
                        # (F22 shape: committing it stores a damaged
                        # database, C04's and C06's finding)
                        return True
                    r = rng.random()
                    if r < 0.3:
                        conn.commit()
                        rec.ev(impl + ':stored:commit')
                        if minidb.embedded_but_leaf_has_oid(conn, ls_.c):
                            state['stop'] = True      # F34 condition
                    elif r < 0.6:
                        conn.cache.minimize()
                        rec.ev(impl + ':stored:sweep')
                    return True
                ls.hooks_after.append(sweep_hook)
            n = rng.randint(60, 200) if sizes else rng.randint(30, 60)
            if not sizes:
                # default sizes: a big update() so that real splits happen
                uni = ls.g.universe
                if fam.kc in 'IULQ':
                    lo = min(uni)
                    big = [lo + i for i in range(rng.randint(130, 520))
                           if fam.key_ok(lo + i)]
                    ls.g.universe = list(dict.fromkeys(uni + big))
                    arg = ('PAIRS', [(k, ls.g._val()) for k in big]) \
                        if ls.is_mapping else ('LIST', big)
                    ls.step('update' if ls.is_mapping else 'supdate', (arg,))
            ok = ls.run(n, p_bad=0.08)
            if h == 0 and ok:
                rec.sample(dict(family=fam.name, kind=kind, impl=impl,
                                sizes=sizes, via_subclass=via_sub,
                                history=[hist.brief(x, 80)
                                         for x in ls.log[:10]],
                                final_shape=hist.brief(ls.walk.shape, 200)
                                if ls.walk else None))
