"""C16 - the C extension accounts for every reference and stays inside its
memory."""
from ..harness import safe_repr as _srepr  # noqa: E402
import gc
import pickle
import sys

from .. import dbops, families, gen, harness, hist, inject, ledger, minidb, \
    reentry, walker
from ..harness import brief
from ..inject import CmpBoom, FKey
from ..runner import rng_for

ID = 'C16'
LEVEL = 'exploration'
RULE = ('evaluations = operations after each of which the reference-count '
        'ledger is evaluated (change of sys.getrefcount of every tracked key '
        'and value object == change of its number of occurrences in leaf '
        'key slots, leaf value slots and separators), over histories on the '
        'object-keyed / object-valued C classes: all mutating and reading '
        'calls, range searches, lazy sequences and iterators (created, '
        'partly consumed, dropped), error paths (missing key, unusable '
        'value, failing comparison at a random index), set algebra and '
        'weighted operations, conflict merges, pickling, commit / cache '
        'eviction / reload through MiniDB, clear, and final destruction '
        '(every tracked object back at its baseline and alive); operations '
        'between two STORED containers with a cache sweep at the n-th load '
        'inside the call and optionally a later load refused (absolute '
        'ledger: every key / value object in a slot of a live node has '
        'exactly as many references as slots hold it); the same '
        'workload runs on the ASan+UBSan build with PYTHONMALLOC=malloc; '
        'distinct_nontrivial = distinct (family, kind, operation, outcome, '
        'tree height) tuples')
ASSUMPTIONS = ['sys.getrefcount deltas are exact at quiescent points after '
               'gc.collect() (tracked objects are addressed by pool index, '
               'temporaries are deleted before measuring)', 'ASan sees only '
               'heap errors that touch red zones or freed blocks']

FAMS = ['OO', 'OI', 'IO', 'LO', 'OL', 'UO', 'QO', 'OU', 'OQ']


def must_see(tier):
    m = {'long-chain:clear': 2, 'long-chain:del': 2, 'ledger-checks': 20000, 'teardown-checks': 100, 'node-census': 100,
         'valgrind:evaluations': 500, 'cycle-collections': 300,
         'resolve-with-successor': 10,
         'c:dbops:ledger-checks': 300, 'c:dbops:sweep-inside-load': 100,
         'c:dbops:load-refused-after-sweep': 30,
         'c:dbops:reload-after-in-load-sweep': 30,
         'height>=3': 10, 'evict-reload': 20}
    for op in ('setitem', 'delitem', 'pop', 'popitem', 'setdefault', 'update',
               'clear', 'get', 'keys-range', 'iterator-partial',
               'lazy-seq', 'missing-key', 'bad-value', 'cmp-fault',
               'set-algebra', 'resolve', 'pickle', 'add', 'remove', 'spop',
               'inplace', 'bad-state', 'extras'):
        m['op:' + op] = 20
    return m


def plan(tier, seed):
    q = tier == 'quick'
    specs = []
    for fam in FAMS:
        specs.append(dict(label=fam, family=fam, histories=10 if q else 100,
                          seed=seed, tier=tier, variant='mon',
                          timeout=900 if q else 7200))
    for fam in (['OO', 'IO', 'OI'] if q else FAMS):
        specs.append(dict(label=fam + '-asan', family=fam,
                          histories=3 if q else 25, seed=seed + 9, tier=tier,
                          variant='asan', timeout=1500 if q else 7200))
    # two stored operands, sweep at a load inside the call, a later load
    # refused (vmon/dbops.py): absolute ledger on the monitor build, the
    # same cases on the ASan build (a reference dropped twice there is a
    # use-after-free: object memory comes from malloc)
    for fam in FAMS:
        specs.append(dict(label=fam + '-dbops', family=fam, dbops=True,
                          histories=150 if q else 4000, seed=seed, tier=tier,
                          variant='mon', timeout=900 if q else 7200))
    for fam in (['OO', 'IO', 'OI'] if q else FAMS + ['II', 'LF', 'fs']):
        specs.append(dict(label=fam + '-dbops-asan', family=fam, dbops=True,
                          histories=120 if q else 1500, seed=seed + 5,
                          tier=tier, variant='asan',
                          timeout=1500 if q else 7200))
    # finalizers (__del__, weakref callbacks) of stored keys / values that
    # look at or change the container in the middle of the operation that
    # released them (vmon/reentry.py)
    # (builds with C assert() compiled out, as shipped: the finalizer sees
    # the container in the middle of an operation, where an assert() about
    # the container at rest - "no empty bucket in a non-empty tree" - may
    # legitimately not hold)
    for fam in FAMS:
        specs.append(dict(label=fam + '-reentry', family=fam, reentry=True,
                          cases=150 if q else 6000, seed=seed, tier=tier,
                          variant='plain', timeout=900 if q else 7200))
    for fam in (['OO', 'IO', 'OI'] if q else FAMS):
        specs.append(dict(label=fam + '-reentry-asan', family=fam,
                          reentry=True, cases=60 if q else 1500,
                          seed=seed + 3, tier=tier, variant='asanr',
                          timeout=1500 if q else 7200))
    # recorded finding F55, one case per process (see vmon/reentry.py)
    for i, (fam, kind, _f) in enumerate(reentry.SACRIFICIAL):
        specs.append(dict(label='reentry-F55-%d' % i, family=fam,
                          sacrificial='F55', case=i, seed=seed, tier=tier,
                          variant='asanr', timeout=600,
                          reentry_action=_f['acts'][0],
                          reentry_trigger=_f['trigger']))
    # destruction of a VERY long leaf chain: releasing the nodes must not
    # recurse once per leaf (the C stack is finite)
    specs.append(dict(label='long-chain', family='OO', long_chain=True,
                      leaves=400000 if q else 1500000, seed=seed, tier=tier,
                      variant='plain', timeout=1800 if q else 7200))
    # valgrind memcheck on the monitor build: reads of uninitialised memory
    # and intra-object overruns that ASan's red zones cannot see (~50x: a
    # few histories only)
    for fam in (['OO', 'IO'] if q else ['OO', 'IO', 'OI', 'LO', 'OQ']):
        specs.append(dict(label=fam + '-valgrind', family=fam,
                          histories=1 if q else 6, seed=seed + 17, tier=tier,
                          variant='vg', timeout=1800 if q else 7200))
    return specs


class World:
    def __init__(self, fam):
        self.fam = fam
        pools = []
        if fam.kc == 'O':
            self.KP = [FKey(i) for i in range(-8, 14)]
            pools.append(self.KP)
            self.tracked_keys = True
        else:
            lo = 0 if fam.kc in 'UQ' else -8
            self.KP = list(range(lo, lo + 22))
            self.tracked_keys = False
        if fam.vc == 'O':
            self.VP = [ledger.TV(j) for j in range(7)]
            pools.append(self.VP)
        else:
            self.VP = [0, 1, 2, 3, 5, 8, 13]
        self.led = ledger.Ledger(pools)
        self.base = {}
        gc.collect()
        for p in pools:
            for i in range(len(p)):
                self.base[(id(p), i)] = sys.getrefcount(p[i])

    def at_baseline(self):
        gc.collect()
        bad = []
        for pi, p in enumerate(self.led.pools):
            for i in range(len(p)):
                rc = sys.getrefcount(p[i])
                if rc != self.base[(id(p), i)]:
                    bad.append((pi, i, rc - self.base[(id(p), i)]))
        return bad


class CycKey(FKey):
    """A key that can point back at its container (reference cycle)."""
    __slots__ = ('ref', '__weakref__')


class CycVal:
    """A value that can point back at its container (reference cycle)."""
    __slots__ = ('ref', '__weakref__')

    def __eq__(self, o):
        return self is o

    def __hash__(self):
        return id(self)


def run_cycles(fam, kind, rng, rec):
    """Garbage cycles through stored keys / values must be collectable:
    every slot that owns a reference has to be reported by tp_traverse and
    dropped by tp_clear, in leaves and in interior nodes (separators)."""
    import weakref
    is_mapping = kind in families.MAPPING_KINDS
    is_tree = kind in families.TREE_KINDS
    cls = fam.cls(kind, 'c')
    if is_tree:
        harness.set_node_sizes(cls, *gen.NODE_SIZES[rng.randrange(
            len(gen.NODE_SIZES))])
    n = rng.choice([1, 2, 5, 30]) if is_tree else rng.choice([1, 2, 7])
    desc = dict(family=fam.name, kind=kind, impl='c', entries=n)
    gc.collect()
    c = cls()
    refs = []
    lo = 0 if fam.kc in 'UQ' else -3
    for i in range(n):
        k = CycKey(i) if fam.kc == 'O' else lo + i
        if fam.kc == 'O':
            k.ref = c
            refs.append(weakref.ref(k))
        if is_mapping:
            if fam.vc == 'O':
                v = CycVal()
                v.ref = c
                refs.append(weakref.ref(v))
            else:
                v = i
            c[k] = v
            del v
        else:
            c.add(k)
        del k
    # delete a few again so that stale separators keep deleted keys alive
    if is_tree and n >= 5 and fam.kc == 'O':
        for k in list(c.keys())[1:n:3]:
            if is_mapping:
                del c[k]
            else:
                c.remove(k)
            del k
    mode = rng.choice(['plain', 'iterator', 'lazy-seq'])
    extra = None
    if mode == 'iterator':
        extra = iter(c)
        try:
            next(extra)
        except StopIteration:
            pass
    elif mode == 'lazy-seq':
        extra = c.keys()
    del c, extra
    gc.collect()
    gc.collect()
    rec.evaluations += 1
    rec.ev('cycle-collections')
    rec.seen(fam.name, kind, 'gc-cycle', mode, min(n, 5))
    alive = sum(1 for r in refs if r() is not None)
    if alive:
        rec.violation('garbage-cycle-through-stored-object-not-collected',
                      alive=alive, tracked=len(refs), mode=mode, **desc)
    del refs


def run_shard(spec, rec):
    fam = families.get(spec['family'])
    if spec.get('dbops'):
        for h in range(spec['histories']):
            rng = rng_for(spec['seed'], ID, spec['label'], h)
            n0 = rec.evaluations
            dbops.run_case(fam, 'c', rng, rec, 'dbops', ledger_mode=True,
                           behaviour=False)
        return
    if spec.get('long_chain'):
        return run_long_chain(spec, rec)
    if spec.get('sacrificial'):
        fam_, kind, force = reentry.SACRIFICIAL[spec['case']]
        for ci in range(4):
            reentry.run_case(families.get(fam_), kind, rng_for(
                spec['seed'], ID, spec['label'], ci), rec, ci, force=force)
        for v in rec.violations:
            v['finding'] = spec['sacrificial']
            v['reentry_action'] = spec['reentry_action']
            v['reentry_trigger'] = spec['reentry_trigger']
        return
    if spec.get('reentry'):
        for ci in range(spec['cases']):
            for kind in families.KINDS:
                rng = rng_for(spec['seed'], ID, spec['label'], kind, ci)
                reentry.run_case(fam, kind, rng, rec, ci)
        return
    for h in range(spec['histories']):
        for kind in families.KINDS:
            rng = rng_for(spec['seed'], ID, spec['label'], kind, h)
            run_history(fam, kind, rng, rec, h)
            if spec.get('variant') != 'vg' or h == 0:
                for j in range(3):
                    run_cycles(fam, kind, rng_for(spec['seed'], ID,
                                                  spec['label'], kind, h,
                                                  'cyc', j), rec)


def node_census(fam):
    """Number of live node objects (Bucket / Set / BTree / TreeSet, and
    their lazy sequences and iterators) of the family's C classes.  A
    reference to a NODE that is dropped once too seldom - a bucket handed
    out by a range search, a successor link - leaks everything below it;
    the tracked keys and values only notice when they happen to sit there."""
    gc.collect()
    mod = sys.modules[fam.cls('BTree', 'c').__module__]
    return sum(1 for o in gc.get_objects()
               if type(o).__module__ == mod.__name__)


def run_long_chain(spec, rec):
    """Trees with one key per leaf and hundreds of thousands of leaves are
    emptied and destroyed in every way there is; the leaf chain must be taken
    apart iteratively."""
    n = spec['leaves']
    for famname, kind in (('OO', 'BTree'), ('II', 'TreeSet'), ('IO', 'BTree')):
        fam_ = families.get(famname)
        cls = fam_.cls(kind, 'c')
        cls.max_leaf_size = 1
        cls.max_internal_size = 64
        is_mapping = kind == 'BTree'
        for how in ('clear', 'del', 'isub', 'setstate', 'pop-all-then-del'):
            if how == 'isub' and is_mapping:
                continue
            rec.journal(repr(('long-chain', famname, kind, how, n)))
            t = cls()
            if is_mapping:
                for i in range(n):
                    t[i] = i
            else:
                t.update(range(n))
            rec.evaluations += 1
            rec.ev('long-chain:' + how)
            if how == 'clear':
                t.clear()
                ok = len(t) == 0
            elif how == 'del':
                del t
                gc.collect()
                ok = True
                t = None
            elif how == 'isub':
                t -= t
                ok = len(t) == 0
            elif how == 'setstate':
                small = cls()
                if is_mapping:
                    small[1] = 1
                else:
                    small.add(1)
                t.__setstate__(small.__getstate__())
                ok = len(t) == 1
            else:
                for i in range(0, n, 2):
                    if is_mapping:
                        del t[i]
                    else:
                        t.remove(i)
                ok = len(t) == n - len(range(0, n, 2))
                del t
                gc.collect()
                t = None
            if not ok:
                rec.violation('long-chain-wrong-contents', family=famname,
                              kind=kind, how=how)
            del t
            rec.seen('long-chain', famname, kind, how)


def run_history(fam, kind, rng, rec, h):
    impl = 'c'
    census0 = node_census(fam)
    is_mapping = kind in families.MAPPING_KINDS
    is_tree = kind in families.TREE_KINDS
    sizes = gen.NODE_SIZES[rng.randrange(len(gen.NODE_SIZES))] if is_tree \
        else None
    W = World(fam)
    cls = fam.cls(kind, impl)
    if sizes:
        harness.set_node_sizes(cls, *sizes)
    use_db = h % 3 == 2
    c = cls()
    conn = None
    if use_db:
        st = minidb.Storage()
        conn = minidb.Connection(st, 'c')
        conn.log_events = False
        conn.add(c)
        conn.commit()
    nk, nv = len(W.KP), len(W.VP)
    desc = dict(family=fam.name, kind=kind, impl=impl, sizes=sizes,
                with_db=use_db)
    log = []
    inject.reset()
    present = set()

    def K(i):
        return W.KP[i]

    def V(j):
        return W.VP[j]

    def others(n=None):
        """Another container of a random kind holding pool keys."""
        okind = rng.choice(['Set', 'TreeSet', 'Bucket', 'BTree'])
        o = fam.cls(okind, impl)()
        for i in rng.sample(range(nk), n or rng.randint(0, 8)):
            if okind in ('Bucket', 'BTree'):
                o[K(i)] = V(rng.randrange(nv))
            else:
                o.add(K(i))
        return o

    def snapshot():
        if conn is None:
            return W.led.snapshot([(c, is_mapping, is_tree)])
        # nodes that were unlinked stay alive in the data manager's cache
        # (and keep their keys) until they are committed and evicted
        extra = conn.cached_objects() + list(conn.registered) + \
            list(conn.added.values())
        r_ = W.led.snapshot([(c, is_mapping, is_tree)], extra_nodes=extra,
                            tree_type=cls if is_tree else None)
        del extra
        return r_

    n = rng.randint(60, 200)
    snap = snapshot()
    for step in range(n):
        ki, vi = rng.randrange(nk), rng.randrange(nv)
        pk = rng.choice(sorted(present)) if present and rng.random() < .7 \
            else ki
        r = rng.random()
        op = None
        outcome = 'ok'
        try:
            if is_mapping:
                if r < 0.22:
                    op = 'setitem'
                    c[K(ki)] = V(vi)
                    present.add(ki)
                elif r < 0.27:
                    op = 'setdefault'
                    c.setdefault(K(ki), V(vi))
                    present.add(ki)
                elif r < 0.30 and kind == 'BTree':
                    op = 'setitem'
                    c.insert(K(ki), V(vi))
                    present.add(ki)
                elif r < 0.35:
                    op = 'update'
                    pairs = [(K(rng.randrange(nk)), V(rng.randrange(nv)))
                             for _ in range(rng.randint(0, 5))]
                    src = rng.choice(['pairs', 'dict', 'bucket', 'failing'])
                    if src == 'failing':
                        # the source breaks off half-way (user code failing
                        # inside update): the pairs before are in
                        kfail = rng.randint(0, len(pairs))
                        fi = gen.FailingItems(pairs, kfail)
                        for a_, _b in pairs[:kfail]:
                            present.add(W.KP.index(a_) if not W.tracked_keys
                                        else a_.n - W.KP[0].n)
                        pairs = []
                        a_ = b_ = _b = None
                        try:
                            c.update(fi)
                        finally:
                            fi.pairs = None
                            del fi
                    elif src == 'dict' and W.tracked_keys is False:
                        c.update(dict(pairs))
                    elif src == 'bucket':
                        b = fam.cls('Bucket', impl)()
                        for a_, b_ in pairs:
                            b[a_] = b_
                        c.update(b)
                        del b
                    else:
                        c.update(pairs)
                    for a_, _b in pairs:
                        present.add(W.KP.index(a_) if not W.tracked_keys
                                    else a_.n - W.KP[0].n)
                    del pairs
                    a_ = b_ = _b = None
                elif r < 0.45:
                    op = 'delitem'
                    del c[K(pk)]
                    present.discard(pk)
                elif r < 0.50:
                    op = 'pop'
                    x = c.pop(K(pk), None)
                    del x
                    present.discard(pk)
                elif r < 0.53:
                    op = 'popitem'
                    x = c.popitem()
                    kk = x[0]
                    present.discard(kk.n - W.KP[0].n if W.tracked_keys
                                    else W.KP.index(kk))
                    del x, kk
                elif r < 0.58:
                    op = 'get'
                    x = (c.get(K(ki)), K(ki) in c, c.has_key(K(pk)))
                    del x
                elif r < 0.60:
                    op = 'bad-value'
                    if fam.vc != 'O':
                        c[K(ki)] = 'not a number'
                    else:
                        op = 'get'
                        x = c[K(pk)]
                        del x
            else:
                if r < 0.25:
                    op = 'add'
                    c.add(K(ki))
                    present.add(ki)
                elif r < 0.32:
                    op = 'update'
                    ks = [rng.randrange(nk) for _ in range(rng.randint(0, 5))]
                    if rng.random() < .25:
                        kfail = rng.randint(0, len(ks))
                        present.update(ks[:kfail])
                        it_ = gen.failing_iter([K(i) for i in ks], kfail)
                        try:
                            if rng.random() < .5:
                                c.update(it_)
                            else:
                                c |= it_
                        finally:
                            del it_
                    else:
                        c.update([K(i) for i in ks])
                        present.update(ks)
                elif r < 0.42:
                    op = 'remove'
                    c.remove(K(pk))
                    present.discard(pk)
                elif r < 0.47:
                    op = 'remove'
                    c.discard(K(ki))
                    present.discard(ki)
                elif r < 0.52:
                    op = 'spop'
                    x = c.pop()
                    present.discard(x.n - W.KP[0].n if W.tracked_keys
                                    else W.KP.index(x))
                    del x
                elif r < 0.60:
                    op = 'inplace'
                    ks = list(dict.fromkeys(
                        rng.randrange(nk) for _ in range(rng.randint(0, 6))))
                    which = rng.choice(['|=', '-=', '^=', '&='])
                    arg = [K(i) for i in ks] if rng.random() < .5 else None
                    if arg is None:
                        arg = fam.cls('Set', impl)([K(i) for i in ks])
                    if which == '|=':
                        c |= arg
                        present.update(ks)
                    elif which == '-=':
                        c -= arg
                        present.difference_update(ks)
                    elif which == '^=':
                        c ^= arg
                        present.symmetric_difference_update(ks)
                    else:
                        c &= arg
                        present.intersection_update(ks)
                    del arg
                elif r < 0.62:
                    op = 'get'
                    x = (K(ki) in c, c.has_key(K(pk)))
                    del x
            if op is None:
                if r < 0.66:
                    op = 'keys-range'
                    a, b = sorted([rng.randrange(nk), rng.randrange(nk)])
                    x = [list(c.keys(K(a), K(b))),
                         list(c.keys(K(a), None, True, True))]
                    if is_mapping:
                        x.append(list(c.items(None, K(b), False, True)))
                        x.append(list(c.values(K(a))))
                    if present:
                        x.append((c.minKey(), c.maxKey(K(b))
                                  if min(present) <= b else None))
                    del x
                elif r < 0.72:
                    op = 'iterator-partial'
                    it = iter(c) if rng.random() < .5 or not is_mapping \
                        else c.iteritems()
                    for _ in range(rng.randint(0, 4)):
                        try:
                            x = next(it)
                            del x
                        except StopIteration:
                            break
                    if rng.random() < .5 and is_mapping:
                        c[K(ki)] = V(vi)        # mutate under the iterator
                        present.add(ki)
                        try:
                            x = next(it)
                            del x
                        except (StopIteration, RuntimeError):
                            pass
                    del it
                elif r < 0.77:
                    op = 'lazy-seq'
                    s = c.items() if is_mapping else c.keys()
                    try:
                        x = (s[0], s[-1], len(s))
                        del x
                        y = s[1:3]
                        z = list(y)
                        del y, z
                    except IndexError:
                        pass
                    if present and rng.random() < .5:
                        # the container shrinks under the sequence, whose
                        # search finger is parked high in a leaf, and the
                        # finger is then moved to the LEFT
                        n_ = len(present)
                        hi_ = rng.randint(max(0, n_ - 4), n_ - 1)
                        try:
                            x = s[hi_]
                            del x
                        except (IndexError, RuntimeError):
                            pass
                        for pk_ in sorted(present)[-rng.randint(1, 3):]:
                            if is_mapping:
                                del c[K(pk_)]
                            else:
                                c.remove(K(pk_))
                            present.discard(pk_)
                        for j_ in (hi_ - 1, hi_ - 2, 0, -1):
                            try:
                                x = s[j_]
                                del x
                            except (IndexError, RuntimeError):
                                pass
                        rec.ev('lazy-seq-shrunk-under-finger')
                    del s
                elif r < 0.81:
                    op = 'missing-key'
                    free = [i for i in range(nk) if i not in present]
                    if free:
                        f = rng.choice(free)
                        if is_mapping:
                            if rng.random() < .5:
                                del c[K(f)]
                            else:
                                x = c[K(f)]
                        else:
                            c.remove(K(f))
                    else:
                        raise KeyError('full')
                elif r < 0.86 and W.tracked_keys:
                    op = 'cmp-fault'
                    inject.arm(fail_at=rng.randint(1, 8))
                    try:
                        q = rng.random()
                        if q < .4:
                            if is_mapping:
                                c[K(ki)] = V(vi)
                            else:
                                c.add(K(ki))
                            present.add(ki)
                        elif q < .7 and pk in present:
                            if is_mapping:
                                del c[K(pk)]
                            else:
                                c.remove(K(pk))
                            present.discard(pk)
                        else:
                            x = list(c.keys(K(ki), K(pk)))
                            del x
                    finally:
                        inject.disarm()
                elif r < 0.91:
                    op = 'set-algebra'
                    o = others()
                    fn = rng.choice(['union', 'intersection', 'difference'])
                    if rng.random() < .3:
                        x = fam.fn(fn, impl)(c, [K(i) for i in rng.sample(
                            range(nk), 4)])
                    elif fam.has_weighted and rng.random() < .3:
                        x = fam.fn('weightedUnion', impl)(c, o)
                    elif rng.random() < .5:
                        # the operator forms (slots of their own)
                        x = (c | o) if fn == 'union' else (c & o) \
                            if fn == 'intersection' else (c - o)
                    else:
                        x = fam.fn(fn, impl)(c, o)
                    y = list(x[1].keys()) if isinstance(x, tuple) else list(
                        x.keys())
                    del x, y, o
                elif r < 0.94 and kind in ('Bucket', 'Set'):
                    op = 'resolve'
                    ks = sorted(rng.sample(range(nk), 4))

                    # a leaf in the middle of a chain: all three states
                    # name the same successor, which the merge hands on
                    nxt = cls() if rng.random() < .6 else None

                    def stt(idx):
                        if is_mapping:
                            flat = []
                            for i in idx:
                                flat += [K(i), V(i % nv)]
                            flat = tuple(flat)
                        else:
                            flat = tuple(K(i) for i in idx)
                        return (flat,) if nxt is None else (flat, nxt)
                    s_old = stt(ks[:2])
                    s_com = stt(ks[:3])
                    s_new = stt(ks[:2] + ks[3:])
                    rc_next0 = sys.getrefcount(nxt) if nxt is not None else 0
                    try:
                        x = cls()._p_resolveConflict(s_old, s_com, s_new)
                        del x
                    finally:
                        del s_old, s_com, s_new
                        if nxt is not None:
                            rec.ev('resolve-with-successor')
                            drift = sys.getrefcount(nxt) - rc_next0 + 3
                            if drift:
                                rec.violation(
                                    'successor-leaf-reference-drift-in-merge',
                                    drift=drift, history=brief(log[-10:], 300),
                                    **desc)
                            del nxt
                elif r < 0.955 and fam.vc != 'O' and W.tracked_keys:
                    # a state that turns out unusable half-way: everything
                    # taken before the bad datum must be given back
                    op = 'bad-state'
                    ks = sorted(rng.sample(range(nk), 3))
                    if is_mapping:
                        flat = (K(ks[0]), V(0), K(ks[1]), 'bad', K(ks[2]),
                                V(1))
                    else:
                        op = 'get'
                        flat = None
                    if flat is not None:
                        st_ = (flat,)
                        if is_tree:
                            st_ = ((st_,),)
                        f_ = cls()
                        try:
                            f_.__setstate__(st_)
                        finally:
                            del f_, st_, flat
                elif r < 0.97:
                    op = 'pickle'
                    d = pickle.dumps(c, 3)
                    x = pickle.loads(d)
                    y = list(x.keys())
                    del x, y, d
                elif r < 0.985:
                    # readers that build fresh objects from the slots:
                    # byValue (sort + reverse of (value, key) pairs), repr,
                    # Set indexing, isdisjoint, multiunion
                    op = 'extras'
                    q = rng.random()
                    if is_mapping and q < .45:
                        try:
                            x = c.byValue(V(vi))
                            y = list(x)
                            del x, y
                        except (TypeError, SystemError):
                            # object values that cannot be ordered: the C
                            # byValue leaves the comparison error pending
                            # and list.sort() then reports SystemError
                            # (outside the 19 properties: byValue is
                            # deprecated and excluded from C09; noted in
                            # DESIGN 9); the ledger below still has to
                            # balance on this error path
                            outcome = 'byValue-unorderable'
                    elif q < .6:
                        x = repr(c)
                        del x
                    elif kind == 'Set' and q < .8:
                        for i_ in (0, -1, rng.randint(-3, 3), 10 ** 6):
                            try:
                                x = c[i_]
                                del x
                            except IndexError:
                                pass
                    elif not is_mapping:
                        o = others()
                        x = (c.isdisjoint(o),
                             c.isdisjoint([K(i) for i in rng.sample(
                                 range(nk), 3)]))
                        del x, o
                    elif fam.has_multiunion:
                        o = others()
                        x = fam.fn('multiunion', impl)([c, o, K(ki)])
                        y = list(x)
                        del x, y, o
                    else:
                        x = (len(c), bool(c))
                        del x
                else:
                    op = 'clear'
                    c.clear()
                    present.clear()
        except CmpBoom:
            outcome = 'CmpBoom'
        except (KeyError, TypeError, ValueError, IndexError,
                gen.OperandBoom) as e:
            outcome = type(e).__name__
            del e
        finally:
            inject.S.armed = False
        if outcome == 'CmpBoom':
            # the change may or may not have been applied
            try:
                present = set((k.n - W.KP[0].n) if W.tracked_keys
                              else W.KP.index(k) for k in c.keys())
            except Exception:
                pass
        log.append((op, outcome))
        rec.journal(_srepr((desc, log[-40:])))
        # ---- commit / evict / reload -----------------------------------------
        if conn is not None and rng.random() < 0.15:
            wk = walker.walk(c, is_mapping) if is_tree else None
            inline = bool(wk is not None and wk.inline_nonroot)
            del wk              # (a walk holds references to the keys)
            if not inline:
                conn.commit()
                if rng.random() < 0.6:
                    conn.cache.minimize()
                    rec.ev('evict-reload')
                    # reloaded nodes hold fresh copies of the keys/values:
                    # the tracked originals must all have been released
        # ---- the ledger --------------------------------------------------------
        snap2 = snapshot()
        rec.evaluations += 1
        rec.ev('ledger-checks')
        rec.ev('op:%s' % op)
        ht = 0
        if is_tree and step % 10 == 0:
            wk = walker.walk(c, is_mapping)
            ht = wk.height
            if ht >= 3:
                rec.ev('height>=3')
            del wk
        rec.seen(fam.name, kind, op, outcome, ht)
        bad = W.led.diff(snap, snap2)
        if bad:
            rec.violation('reference-count-imbalance', op=op, outcome=outcome,
                          imbalance=brief(bad[:6]),
                          history=brief(log[-30:], 600), **desc)
            return
        snap = snap2
    # ---- destruction ---------------------------------------------------------
    del snap, snap2
    if conn is not None:
        conn.abort()
        conn.cache.minimize()
        del conn, st
    del c
    rec.ev('teardown-checks')
    bad = W.at_baseline()
    if bad:
        rec.violation('objects-not-at-baseline-after-destruction',
                      imbalance=brief(bad[:8]),
                      history=brief(log[-30:], 600), **desc)
        return
    # ---- node census -------------------------------------------------------
    log_tail = brief(log[-30:], 600)
    del log
    left = node_census(fam) - census0
    rec.ev('node-census')
    if left > 0:
        rec.violation('node-objects-left-after-destruction', left=left,
                      history=log_tail, **desc)
        return
