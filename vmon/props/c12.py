"""C12 - weighted union / intersection follow the documented formula."""
from ..harness import safe_repr as _srepr  # noqa: E402
from fractions import Fraction

from .. import families, gen, setops
from ..families import INT_RANGES, f32, sort_keys
from ..harness import brief, eq
from ..runner import rng_for

ID = 'C12'
LEVEL = 'exploration'
RULE = ('evaluations = weightedUnion / weightedIntersection calls for the 16 '
        'numeric-valued families, operands Set / TreeSet / Bucket / BTree in '
        'all four set/mapping combinations (all shapes, overlaps), None '
        'operands, default and explicit weights (incl. 0, negative for '
        'signed families, w1 != w2); the returned weight, the result kind, '
        'the keys and every value v1*w1 + v2*w2 are compared with the IIMerge '
        'docstring written out; integer cases are drawn so that the exact '
        'result is representable, float cases use dyadic rationals so that '
        'the exact result is a float32; distinct_nontrivial = distinct (impl, '
        'function, left kind, right kind, weights class, overlap class) '
        'tuples')
ASSUMPTIONS = ['the IIMerge docstrings are the specification',
               'no arithmetic overflow is requested (the property does not '
               'state what happens then)']

NUM_FAMS = [f for f in families.FAMILY_NAMES if f[1] in 'IULQF']


def must_see(tier):
    m = {}
    for impl in ('c', 'py'):
        for fn in ('weightedUnion', 'weightedIntersection'):
            for combo in ('set-set', 'set-map', 'map-set', 'map-map'):
                m['%s:%s:%s' % (impl, fn, combo)] = 10
            m['%s:%s:none' % (impl, fn)] = 3
        m[impl + ':w1!=w2'] = 20
        m[impl + ':weight0'] = 5
        m[impl + ':default-weights'] = 20
        m[impl + ':ghost-operands'] = 20
        m[impl + ':far-end-of-value-range'] = 100
        m[impl + ':subclass-operand'] = 100
        m[impl + ':result-in-upper-half-of-unsigned-range'] = 20
    return m


def plan(tier, seed):
    q = tier == 'quick'
    specs = []
    for fam in NUM_FAMS:
        specs.append(dict(label=fam, family=fam, cases=3000 if q else 500000,
                          seed=seed, tier=tier, variant='mon',
                          timeout=900 if q else 7200))
    for fam in (['II', 'OF', 'LQ', 'UF'] if q else NUM_FAMS):
        if fam not in NUM_FAMS:
            continue
        specs.append(dict(label=fam + '-asan', family=fam,
                          cases=250 if q else 20000, seed=seed + 13, tier=tier,
                          variant='asan', timeout=1500 if q else 7200))
    return specs


def small_values(fam, rng):
    c = fam.vc
    if c == 'F':
        return [0.0, 1.0, -2.0, 0.5, 3.25, -0.75, 8.0, 1024.0]
    lo, hi = INT_RANGES[c]
    vs = [0, 1, 2, 3, 7, 100]
    if lo < 0:
        vs += [-1, -5]
    return vs


def weights(fam, rng):
    c = fam.vc
    if c == 'F':
        pool = [0.0, 1.0, 2.0, 0.5, -1.5, 4.0]
    elif c in 'UQ':
        pool = [0, 1, 2, 3, 10]
    else:
        pool = [0, 1, 2, 3, -1, -2, 10]
    return rng.choice(pool), rng.choice(pool)


def big_mode(fam, rng):
    """-> (values, (w1, w2)) whose exact results v1*w1 + v2*w2 stay inside
    the value domain but reach its far ends: the upper half of an unsigned
    range (beyond 2^31 / 2^63, where a signed intermediate goes negative),
    both ends of a signed one.  Every single product is representable too."""
    lo, hi = INT_RANGES[fam.vc]
    r = rng.random()
    if r < .5:
        # large values, small weights: at most 3*(hi/7) + 3*(hi/7) < hi
        vs = [0, 1, hi // 7, hi // 7 - 1, hi // 8, hi // 9 + 5]
        if lo < 0:
            vs += [lo // 7, lo // 8 + 3, -1]
        ws = [0, 1, 2, 3]
        return vs, (rng.choice(ws), rng.choice(ws))
    # small values (a set member counts 1), large weights:
    # 1*(hi/2) + 1*(hi/3) < hi
    vs = [0, 1, 1, 0]
    w1 = rng.choice([hi // 2, hi // 3, hi // 2 - 7, hi // 4, 1, 0])
    w2 = rng.choice([hi // 3, hi // 5, hi // 3 - 1, 2, 0])
    if rng.random() < .15:
        w1, w2 = rng.choice([(hi, 0), (0, hi), (hi - 1, 1)])
    if rng.random() < .5:
        w1, w2 = w2, w1
    return vs, (w1, w2)


def run_shard(spec, rec):
    fam = families.get(spec['family'])
    rng = rng_for(spec['seed'], ID, spec['label'])
    vals = small_values(fam, rng)
    for i in range(spec['cases']):
        impl = 'c' if (i % 2 == 0 or spec['variant'] in ('asan', 'vg')) else 'py'
        if i % 50 == 0:
            uni = fam.key_universe(rng, n=rng.choice([6, 12, 20]))
        if fam.vc != 'F' and i % 8 in (3, 6):
            bv, bw = big_mode(fam, rng)
            run_case(fam, impl, rng, rec, uni, bv, i, big_weights=bw)
        else:
            run_case(fam, impl, rng, rec, uni, vals, i)


def run_case(fam, impl, rng, rec, uni, vals, i, big_weights=None):
    fname = rng.choice(['weightedUnion', 'weightedIntersection'])
    fn = fam.fn(fname, impl)
    desc = dict(family=fam.name, impl=impl, fn=fname)
    sizes = gen.NODE_SIZES[rng.randrange(len(gen.NODE_SIZES))]
    for k_ in ('BTree', 'TreeSet'):
        cls_ = fam.cls(k_, impl)
        cls_.max_leaf_size, cls_.max_internal_size = sizes

    def operand():
        n = rng.choice([0, 1, 2, rng.randint(0, len(uni))])
        keys = rng.sample(uni, min(n, len(uni)))
        kind = rng.choice(setops.CONTAINER_KINDS)
        sub = rng.random() < .15
        if sub:
            rec.ev(impl + ':subclass-operand')
        c, v = setops.make_container(fam, kind, impl, keys, vals, rng,
                                         pool=uni, subclass=sub)
        return c, keys, (v if kind in ('Bucket', 'BTree') else None), kind
    a, ka, va, kinda = operand()
    b, kb, vb, kindb = operand()
    use_w = rng.random() < 0.7
    w1, w2 = weights(fam, rng) if use_w else (1, 1)
    if big_weights is not None:
        use_w = True
        w1, w2 = big_weights
        rec.ev(impl + ':far-end-of-value-range')
    # ---- None operands -----------------------------------------------------
    r = rng.random()
    if r < 0.05:
        rec.ev('%s:%s:none' % (impl, fname))
        rec.evaluations += 1
        try:
            o1 = fn(None, None, w1, w2) if use_w else fn(None, None)
            o2 = fn(a, None, w1, w2) if use_w else fn(a, None)
            o3 = fn(None, b, w1, w2) if use_w else fn(None, b)
        except Exception as e:
            rec.violation('none-operand-raised', detail='%s: %s' % (
                type(e).__name__, e), **desc)
            return
        ok = (o1[0] == 0 and o1[1] is None and o2[0] == w1 and o2[1] is a and
              o3[0] == w2 and o3[1] is b)
        if not ok:
            rec.violation('none-operand-rule', observed=brief((o1, o2, o3)),
                          weights=(w1, w2), **desc)
        return
    combo = ('map' if va is not None else 'set') + '-' + \
        ('map' if vb is not None else 'set')
    snap_a, snap_b = setops.snapshot(a), setops.snapshot(b)
    rec.journal(_srepr((desc, kinda, kindb, ka, kb, w1, w2)))
    keep_conns = None
    if i % 5 in (0, 1):
        # operands as they come out of a database: ghosts
        keep_conns, ng = setops.store_and_ghostify([a, b], rec, impl + ':')
        desc['ghost_operands'] = ng
    try:
        out = fn(a, b, w1, w2) if use_w else fn(a, b)
    except Exception as e:
        rec.violation('weighted-op-raised', left=kinda, right=kindb,
                      weights=(w1, w2), detail='%s: %s' % (
                          type(e).__name__, e), **desc)
        return
    rec.evaluations += 1
    rec.ev('%s:%s:%s' % (impl, fname, combo))
    if use_w and w1 != w2:
        rec.ev(impl + ':w1!=w2')
    if use_w and (w1 == 0 or w2 == 0):
        rec.ev(impl + ':weight0')
    if not use_w:
        rec.ev(impl + ':default-weights')
    sa, sb = set(ka), set(kb)
    ov = 'empty' if not sa or not sb else 'disjoint' if not (sa & sb) else \
        'equal' if sa == sb else 'overlap'
    rec.seen(impl, fname, kinda, kindb,
             'default' if not use_w else (w1 == w2, w1 == 0 or w2 == 0,
                                          w1 < 0 or w2 < 0), ov)
    d = dict(desc, left=kinda, right=kindb, weights=(w1, w2), a=brief(
        va if va is not None else ka, 200), b=brief(
        vb if vb is not None else kb, 200), used_weights=use_w)
    try:
        weight, res = out
    except Exception:
        rec.violation('result-not-a-pair', observed=brief(out), **d)
        return
    both_sets = va is None and vb is None
    keys = (sa | sb) if fname == 'weightedUnion' else (sa & sb)
    wkeys = sort_keys(list(keys))
    # documented weight
    if both_sets:
        want_weight = 1 if fname == 'weightedUnion' else w1 + w2
    else:
        want_weight = 1
    if weight != want_weight:
        rec.violation('wrong-weight', observed=weight, expected=want_weight,
                      **d)
        return
    rk = setops.kind_of(res, fam)
    if rk != ('Set' if both_sets else 'Bucket'):
        rec.violation('wrong-result-kind', observed=rk, **d)
        return
    if list(res.keys()) != wkeys:
        rec.violation('wrong-result-keys', observed=brief(list(res.keys()),
                                                          300),
                      expected=brief(wkeys, 300), **d)
        return
    if not both_sets:
        isf = fam.vc == 'F'

        def val(vs, k, present_set):
            if k not in present_set:
                return 0
            return 1 if vs is None else vs[k]
        want = []
        for k in wkeys:
            v1, v2 = val(va, k, sa), val(vb, k, sb)
            if fname == 'weightedIntersection':
                pass
            exact = Fraction(v1) * Fraction(w1) + Fraction(v2) * Fraction(w2)
            want.append((k, float(exact) if isf else int(exact)))
            if fam.vc in 'UQ' and exact > INT_RANGES[fam.vc][1] // 2:
                rec.ev(impl + ':result-in-upper-half-of-unsigned-range')
        got = list(res.items())
        bad = None
        if len(got) != len(want):
            bad = 'length'
        else:
            for (gk, gv), (wk_, wv) in zip(got, want):
                if gk != wk_ or gv != wv:
                    bad = (gk, gv, wv)
                    break
        if bad:
            rec.violation('wrong-weighted-values', first_bad=brief(bad),
                          observed=brief(got, 300), expected=brief(want, 300),
                          **d)
            return
    if not eq(setops.snapshot(a), snap_a) or \
            not eq(setops.snapshot(b), snap_b):
        rec.violation('operand-modified', **d)
        return
    if i % 173 == 0:
        rec.sample(dict(d, weight=weight, result=brief(
            list(res.items()) if not both_sets else list(res.keys()), 200)))
