"""C04 - every change reaches the database; abort restores."""
from ..harness import safe_repr as _srepr  # noqa: E402
from .. import families, gen, harness, hist, minidb, walker
from ..harness import brief, eq
from ..runner import rng_for

ID = 'C04'
LEVEL = 'exploration'
RULE = ('evaluations = public calls executed on a container stored in MiniDB '
        '(a recording data manager on the real persistent.PickleCache, ZODB '
        'pickling order) plus one per commit/abort verdict; after every '
        'commit a fresh connection (new cache, alternately C and Python '
        'classes) loads the records and must show the writer\'s contents in a '
        'sound tree; after every abort the writer must show the last '
        'committed contents; distinct_nontrivial = distinct (impl, kind, '
        'reader impl, boundary [commit/abort], structural events inside the '
        'transaction, shape class) tuples')
ASSUMPTIONS = ['MiniDB (vmon/minidb.py) stands in for a ZODB connection: only '
               'the documented jar protocol and ZODB\'s pickling order are '
               'assumed', 'exactly the registered objects and objects newly '
               'reachable from them are written']

TX_EVENTS = ['leaf_split', 'root_split', 'unlink_first', 'unlink_middle',
             'unlink_last', 'embedded_to_external', 'interior_split']


def must_see(tier):
    m = {'commits': 200, 'aborts': 50, 'commit-only-leaf-registered': 1,
         'mutate-reassign': 50,
         'commit-after:clear': 1, 'abort-after:clear': 1,
         'commit-after:noop-replace': 1, 'commit-back-to-one-leaf': 1}
    for e in TX_EVENTS:
        m['commit-after:' + e] = 1
        m['abort-after:' + e] = 1
    for impl in ('c', 'py'):
        m[impl + ':reopened'] = 30
        m[impl + ':reopened-with-other-node-sizes'] = 10
        m[impl + ':load-refused'] = 10
    m['single-change:commit'] = 5000
    m['single-change:abort'] = 5000
    return m


def plan(tier, seed):
    specs = []
    nh = 12 if tier == 'quick' else 500
    for fam in families.FAMILY_NAMES:
        for impl in ('c', 'py'):
            specs.append(dict(label='%s-%s' % (fam, impl), family=fam,
                              impl=impl, histories=nh, seed=seed, tier=tier,
                              variant='mon', timeout=900 if tier == 'quick'
                              else 7200))
    return specs


def reader_check(storage, root_oid, impl2, is_mapping, is_tree, want,
                 sizes=True):
    """Load the stored records into a fresh cache. -> (errors, contents)"""
    conn2 = minidb.Connection(storage, impl2)
    conn2.log_events = False
    r = conn2.get(root_oid)
    errs = []
    got = None
    try:
        got = harness.contents(r, is_mapping)
    except Exception as e:
        errs.append(('reader-contents-raised', '%s: %s' % (
            type(e).__name__, e)))
    if got is not None and not eq(got, want):
        errs.append(('reader-contents', 'reader sees %s, writer had %s' % (
            brief(got, 300), brief(want, 300))))
    if is_tree:
        serrs, w = hist.structural_checks(r, is_mapping, sizes=sizes)
        errs.extend(serrs)
    return errs


def run_shard(spec, rec):
    fam = families.get(spec['family'])
    impl = spec['impl']
    for kind in families.KINDS:
        for h in range(spec['histories']):
            rng = rng_for(spec['seed'], ID, spec['family'], impl, kind, h)
            run_history(fam, kind, impl, rng, rec, h)
        for j in range(spec.get('matrices', 1)):
            rng = rng_for(spec['seed'], ID, spec['family'], impl, kind,
                          'single', j)
            run_single_changes(fam, kind, impl, rng, rec)


# ---------------------------------------------------------------------------
# one change per transaction: every kind of writing call, at every key of a
# small stored container of every shape class, with every value of the
# palette, is the ONLY modification of its transaction; then commit (fresh
# reader) or abort (writer restored).  A missing announcement cannot hide
# behind another change of the same node here.

def _single_cases(fam, is_mapping, present, absent, values, rng):
    out = []
    if is_mapping:
        for k in present:
            for v in values:
                out.append(('setitem', (k, v)))
            out += [('delitem', (k,)), ('pop', (k,)),
                    ('setdefault', (k, rng.choice(values))),
                    ('SAME-OBJECT', (k,)), ('SAME-VALUE', (k,))]
        for k in absent[:4]:
            v = rng.choice(values)
            out += [('setitem', (k, v)), ('setdefault', (k, v)),
                    ('update', (('PAIRS', [(k, v)]),)),
                    ('popd', (k, v)), ('delitem', (k,))]
        out += [('popitem', ()), ('clear', ()),
                ('update', (('PAIRS', []),))]
    else:
        for k in present:
            out += [('remove', (k,)), ('discard', (k,)), ('add', (k,)),
                    ('isub', (('LIST', [k]),)), ('ixor', (('LIST', [k]),)),
                    ('iand', (('LIST', [x for x in present if x != k]),))]
        for k in absent[:4]:
            out += [('add', (k,)), ('discard', (k,)), ('remove', (k,)),
                    ('supdate', (('LIST', [k]),)), ('ior', (('LIST', [k]),)),
                    ('ixor', (('LIST', [k]),))]
        out += [('spop', ()), ('clear', ()), ('iand', (('LIST', []),)),
                ('isub', (('SELF', []),))]
    return out


def run_single_changes(fam, kind, impl, rng, rec):
    import copy
    from ..model import RefMap, RefSet
    is_tree = kind in families.TREE_KINDS
    is_mapping = kind in families.MAPPING_KINDS
    sizes = (2, 3) if is_tree else None
    cls = fam.cls(kind, impl)
    if sizes:
        harness.set_node_sizes(cls, *sizes)
    g = gen.HistoryGen(fam, kind, rng)
    uni = [k for k in families.sort_keys(list(dict.fromkeys(g.universe)))]
    values = list(g.values)
    if impl == 'py' and fam.vc == 'F':
        values = [v for v in values if families.f32(v) == v]
    shapes = ['embedded', 'multi', 'shrunk', 'empty'] if is_tree else \
        ['some', 'empty']
    for shape in shapes:
        # ---- the base container, committed ---------------------------------
        storage = minidb.Storage()
        conn = minidb.Connection(storage, impl)
        conn.log_events = False
        c = cls()
        root_oid = conn.add(c)
        n = {'embedded': 2, 'multi': 9, 'shrunk': 9, 'empty': 0,
             'some': 5}[shape]
        ks = rng.sample(uni, min(n, len(uni)))
        for k in ks:
            if is_mapping:
                c[k] = rng.choice(values)
            else:
                c.add(k)
        if is_tree and walker.walk(c, is_mapping).inline_nonroot:
            continue            # (F22 shape: C06's / this check's finding)
        conn.commit()
        if shape == 'shrunk':
            # back to ONE leaf, which has a record of its own by now
            for k in families.sort_keys(ks)[2:]:
                if is_mapping:
                    del c[k]
                else:
                    c.remove(k)
            w = walker.walk(c, is_mapping)
            if w.inline_nonroot:
                continue
            del w
            conn.commit()
            if minidb.embedded_but_leaf_has_oid(conn, c):
                continue        # (F34 condition)
        base = harness.contents(c, is_mapping)
        present = [x[0] for x in base] if is_mapping else list(base)
        absent = [k for k in uni if k not in present]
        rng.shuffle(absent)
        del c, conn
        cases = _single_cases(fam, is_mapping, present, absent, values, rng)
        for op, args in cases:
            for boundary in ('commit', 'abort'):
                st = copy.deepcopy(storage)
                conn = minidb.Connection(st, impl)
                conn.log_events = False
                c = conn.get(root_oid)
                m = RefMap(fam) if is_mapping else RefSet(fam)
                if is_mapping:
                    m.d = dict(base)
                else:
                    m.s = set(base)
                desc = dict(family=fam.name, kind=kind, impl=impl,
                            sizes=sizes, shape=shape, op=op,
                            args=brief(args, 120), boundary=boundary,
                            base=brief(base, 200))
                rec.journal(_srepr(desc))
                try:
                    if op == 'SAME-OBJECT':
                        # v = t[k]; (mutate v); t[k] = v
                        k = args[0]
                        v = c[k]
                        if isinstance(v, list):
                            v.append('x')
                            m.d[k] = list(v)
                        c[k] = v
                        del v
                    elif op == 'SAME-VALUE':
                        k = args[0]
                        c[k] = m.d[k]
                    else:
                        rargs = tuple(gen.materialize(a, fam, impl, c, False)
                                      for a in args)
                        margs = tuple(gen.materialize(a, fam, impl, m, True)
                                      for a in args)
                        ro = harness.call(c, op, rargs)
                        mo = harness.call(m, op, margs)
                        if ro[0] != mo[0]:
                            # (what a call returns is C01's business)
                            got_ = harness.contents(c, is_mapping)
                            if is_mapping:
                                m.d = dict(got_)
                            else:
                                m.s = set(got_)
                except Exception as e:
                    rec.violation('single-change-harness', detail='%s: %s' % (
                        type(e).__name__, e), **desc)
                    return
                want = m.contents()
                try:
                    now = harness.contents(c, is_mapping)
                except Exception as e:
                    rec.violation('contents-raised', detail='%s: %s' % (
                        type(e).__name__, e), **desc)
                    continue
                if not eq(now, want):
                    # the call itself misbehaved (C01's business): follow it
                    want = now
                changed = not eq(want, base) or op == 'SAME-OBJECT'
                rec.evaluations += 1
                rec.ev('single-change:' + boundary)
                rec.seen(impl, kind, 'single', shape, op, boundary, changed)
                if boundary == 'commit':
                    try:
                        conn.commit()
                    except Exception as e:
                        rec.violation('commit-raised', detail='%s: %s' % (
                            type(e).__name__, e), **desc)
                        continue
                    impl2 = impl if rng.random() < .5 else \
                        ('py' if impl == 'c' else 'c')
                    errs = reader_check(st, root_oid, impl2, is_mapping,
                                        is_tree, want, sizes=False)
                    if errs:
                        rec.violation('lost-or-damaged-after-commit',
                                      reader_impl=impl2, errors=errs[:3],
                                      single_change=True, **desc)
                else:
                    conn.abort()
                    try:
                        got = harness.contents(c, is_mapping)
                    except Exception as e:
                        rec.violation('abort-contents-raised',
                                      detail='%s: %s' % (type(e).__name__, e),
                                      **desc)
                        continue
                    if not eq(got, base):
                        rec.violation('abort-did-not-restore',
                                      observed=brief(got, 300),
                                      expected=brief(base, 300),
                                      single_change=True, **desc)
                    elif is_tree:
                        serrs, _w = hist.structural_checks(c, is_mapping,
                                                           sizes=False)
                        if serrs:
                            rec.violation('abort-left-damaged-tree',
                                          errors=serrs[:3], **desc)
                del c, conn, st


def run_history(fam, kind, impl, rng, rec, h):
    is_tree = kind in families.TREE_KINDS
    is_mapping = kind in families.MAPPING_KINDS
    sizes = None
    if is_tree and h % 6 != 5:
        sizes = gen.NODE_SIZES[rng.randrange(len(gen.NODE_SIZES))]
    storage = minidb.Storage()
    conn = minidb.Connection(storage, impl)
    c = hist.make_container(fam, kind, impl, sizes, False)
    root_oid = conn.add(c)
    conn.commit()
    ls = hist.LockStep(fam, kind, impl, rng, rec, sizes=sizes,
                       container=c, adversarial=0.4, read_ops=(h % 2 == 0),
                       judge='contents')
    if impl == 'py' and fam.vc == 'F':
        ls.g.values = [v for v in ls.g.values if families.f32(v) == v]
    ls.fault_conn = conn
    ls.p_refuse = 0.03
    # a load refused inside a single-key call (unchanged or completed, and
    # announced accordingly: the next commit / abort is judged as usual)
    ls.p_loadfail = 0.04
    committed = ls.m.copy()
    tx_events = set()
    n = rng.randint(40, 160) if sizes else rng.randint(30, 80)
    p_commit = rng.choice([0.08, 0.15, 0.3])
    p_abort = rng.choice([0.03, 0.06, 0.12])
    ncommit = 0
    f34 = [False]

    def after(ls, op, args):
        pass
    owned = {}      # key -> list object this history stored under it

    def mutate_reassign():
        """The idiom for plain mutable values: v = t[k]; v.append(x);
        t[k] = v - storing the SAME object again must register the change
        (the container cannot know the object was mutated)."""
        present = ls.m.sorted_keys()
        live = [k for k in present if k in owned and c.get(k) is owned[k]]
        if live and rng.random() < .7:
            k = rng.choice(live)
            v = owned[k]
            v.append(len(v))
            c[k] = v
            ls.m.d[k] = list(v)
            ls.log.append(('mutate-reassign', (k, list(v))))
            rec.ev('mutate-reassign')
        elif present:
            k = rng.choice(present)
            v = ['m']
            c[k] = v
            owned[k] = v
            ls.m.d[k] = list(v)
            ls.log.append(('store-mutable', (k, list(v))))
        else:
            return False
        rec.evaluations += 1
        return True

    for step in range(n):
        conn.op_index += 1
        before = ls.walk
        nleaves_before = len(before.leaf_keys) if before else 0
        pre = ls.m.contents()
        if fam.vc == 'O' and is_mapping and rng.random() < 0.12 and \
                mutate_reassign():
            pass
        elif not ls.step():
            return
        op = ls.log[-1][0]
        w = ls.walk
        if is_tree and op in harness.MUTATING_OPS:
            tx_events |= walker.diff_events(before, w)
            if op == 'clear' and nleaves_before:
                tx_events.add('clear')
            if w and before and len(w.leaf_keys) == 1 and nleaves_before > 1:
                tx_events.add('back-to-one-leaf')
        elif op == 'clear' and pre:
            tx_events.add('clear')
        if op == 'setitem' and eq(pre, ls.m.contents()):
            tx_events.add('noop-replace')
        r = rng.random()
        if r < p_commit or step == n - 1:
            # ---- commit -------------------------------------------------
            want = ls.m.contents()
            wpre = ls.current_walk() if is_tree else None
            inline = wpre.inline_nonroot if wpre is not None else 0
            regs = list(conn.registered)
            try:
                conn.commit()
            except Exception as e:
                ls.violation('commit-raised', detail='%s: %s' % (
                    type(e).__name__, e))
                return
            ncommit += 1
            rec.ev('commits')
            rec.evaluations += 1
            if regs and is_tree and all(
                    type(o) is not type(c) for o in regs):
                rec.ev('commit-only-leaf-registered')
            impl2 = impl if ncommit % 2 else ('py' if impl == 'c' else 'c')
            errs = reader_check(storage, root_oid, impl2, is_mapping, is_tree,
                                want, sizes=ls.check_sizes)
            for e in sorted(tx_events):
                rec.ev('commit-after:' + e)
            if 'back-to-one-leaf' in tx_events:
                rec.ev('commit-back-to-one-leaf')
            rec.seen(impl, kind, impl2, 'commit', tuple(sorted(tx_events)),
                     walker.shape_class(wpre) if wpre else len(want) > 0)
            if errs:
                d = dict(boundary='commit', reader_impl=impl2,
                         errors=errs[:3], tx_events=sorted(tx_events),
                         inline_nonroot=inline,
                         writer_leaves=brief(wpre.leaf_keys, 300)
                         if wpre else None,
                         written=len(storage.writes_log[-1]))
                if inline:
                    d['finding'] = 'F22'
                elif f34[0]:
                    d['finding'] = 'F34'
                ls.violation('lost-or-damaged-after-commit', **d)
                return
            # the writer itself must be unaffected by committing
            got = harness.contents(c, is_mapping)
            if not eq(got, want):
                ls.violation('writer-changed-by-commit',
                             observed=brief(got, 300), expected=brief(want, 300))
                return
            if conn.registered or any(
                    o._p_changed for o in conn.cached_objects()):
                ls.violation('changed-flag-after-commit')
                return
            committed = ls.m.copy()
            tx_events = set()
            if is_tree and minidb.embedded_but_leaf_has_oid(conn, c):
                f34[0] = True
                # (from here on the root's record is a stale embedded copy:
                # whatever the writer sees after its root was evicted and
                # reloaded is the consequence of F34)
                ls.damaged_db_finding = 'F34'
                rec.ev('f34-condition')
            if inline:
                # the stored database would be F22-damaged later on
                rec.ev('f22-shape-committed-clean')
            elif not f34[0] and rng.random() < 0.12:
                # ---- a new session: the application is restarted, the
                # writer continues on a freshly opened connection (every
                # node a ghost) - and, for trees, possibly with other node
                # sizes configured (a legal setting: nodes written under the
                # old sizes may now be over-full and are split by the first
                # insertion that passes through them)
                conn = minidb.Connection(storage, impl)
                c = conn.get(root_oid)
                ls.c = c
                ls.fault_conn = conn
                ls.walk = None
                owned.clear()
                rec.ev(impl + ':reopened')
                if is_tree and sizes and rng.random() < 0.6:
                    sizes = gen.NODE_SIZES[rng.randrange(len(gen.NODE_SIZES))]
                    harness.set_node_sizes(type(c), *sizes)
                    ls.sizes = sizes
                    ls.g.max_leaf = sizes[0]
                    ls.check_sizes = False
                    rec.ev(impl + ':reopened-with-other-node-sizes')
        elif r < p_commit + p_abort:
            # ---- abort --------------------------------------------------
            conn.abort()
            rec.ev('aborts')
            rec.evaluations += 1
            for e in sorted(tx_events):
                rec.ev('abort-after:' + e)
            want = committed.contents()
            try:
                got = harness.contents(c, is_mapping)
            except Exception as e:
                ls.violation('abort-contents-raised', detail='%s: %s' % (
                    type(e).__name__, e))
                return
            rec.seen(impl, kind, 'abort', tuple(sorted(tx_events)),
                     len(want) > 0)
            if not eq(got, want):
                ls.violation('abort-did-not-restore', observed=brief(got, 300),
                             expected=brief(want, 300),
                             tx_events=sorted(tx_events))
                return
            if is_tree:
                serrs, w = hist.structural_checks(c, is_mapping,
                                                  sizes=ls.check_sizes)
                if serrs:
                    ls.violation('abort-left-damaged-tree', errors=serrs[:3])
                    return
            ls.m = committed.copy()
            ls.walk = None
            tx_events = set()
    if h == 0 and kind == 'BTree':
        rec.sample(dict(family=fam.name, kind=kind, impl=impl, sizes=sizes,
                        commits=ncommit, records=len(storage.data),
                        history=[brief(x, 80) for x in ls.log[:10]]))
