"""C11 - multiunion is the exact sorted union for every integer-key family."""
from ..harness import safe_repr as _srepr  # noqa: E402
from .. import families, setops
from ..families import INT_RANGES
from ..harness import brief
from ..runner import rng_for

ID = 'C11'
LEVEL = 'exploration'
RULE = ('evaluations = multiunion(seq) calls for the 16 integer-key '
        'families in both implementations (C also under ASan+UBSan): 0..12 '
        'operands of every kind (ints, Set, TreeSet, Bucket, BTree, list, '
        'tuple, generator, set, range, containers of the other '
        'implementation), total sizes on both sides of the insertion-sort / '
        'quicksort / radix-sort switches (0, 1, 2, 25, 26, 799..802, 2000, '
        '20000), keys uniform over the whole range, clustered around 0, '
        'around the sign boundary, with the top bit set, at both extremes, '
        'byte-window patterns, heavy duplication; the result must equal '
        'sorted(set(all keys)), be the family\'s Set, and answer membership '
        'and range queries; distinct_nontrivial = distinct (impl, family, '
        'size class, key pattern, operand kinds) tuples')
ASSUMPTIONS = ['sorted(set(keys)) is the oracle']

INT_FAMS = [f for f in families.FAMILY_NAMES if f[0] in 'IULQ']
SIZES = [0, 1, 2, 3, 25, 26, 100, 799, 800, 801, 802, 1500, 2000]


def must_see(tier):
    m = {}
    for fam in INT_FAMS:
        m['c:%s:n>800' % fam] = 3
        m['c:%s:n>800:extremes' % fam] = 1
    for impl in ('c', 'py'):
        for k in ('int', 'Set', 'TreeSet', 'Bucket', 'BTree', 'list',
                  'generator', 'range', 'other-impl', 'getitem-seq',
                  'keys-view', 'values-view', 'foreign', 'subclass'):
            m['%s:operand:%s' % (impl, k)] = 5
        m[impl + ':dups-across-operands'] = 10
        m[impl + ':ghost-operands'] = 20
        m[impl + ':lazy-outer-sequence'] = 10
        m[impl + ':foreign-operand-with-unusable-key'] = 20
    m['py:n>=4000'] = 10
    return m


def plan(tier, seed):
    q = tier == 'quick'
    specs = []
    for fam in INT_FAMS:
        specs.append(dict(label=fam, family=fam, cases=300 if q else 10000,
                          seed=seed, tier=tier, variant='mon', big=not q,
                          timeout=900 if q else 7200))
        specs.append(dict(label=fam + '-asan', family=fam,
                          cases=60 if q else 2000, seed=seed + 3, tier=tier,
                          variant='asan', big=False,
                          timeout=1500 if q else 7200))
    # memcheck over the native sorters (scratch buffers, radix passes)
    for fam in (['LL'] if q else ['II', 'LL', 'UU', 'QQ', 'IF']):
        specs.append(dict(label=fam + '-valgrind', family=fam,
                          cases=24 if q else 250, seed=seed + 5, tier=tier,
                          variant='vg', big=False,
                          timeout=1800 if q else 7200))
    return specs


def gen_keys(fam, rng, n, pattern):
    lo, hi = INT_RANGES[fam.kc]
    bits = 64 if fam.kc in 'LQ' else 32
    out = []
    if pattern == 'uniform':
        out = [rng.randint(lo, hi) for _ in range(n)]
    elif pattern == 'zero':
        a = max(lo, -n)
        out = [rng.randint(a, min(hi, n)) for _ in range(n)]
    elif pattern == 'signbit':
        # around the boundary where the top bit flips
        c = 0 if lo < 0 else 2 ** (bits - 1)
        out = [min(hi, max(lo, c + rng.randint(-n, n))) for _ in range(n)]
    elif pattern == 'topbit':
        out = [rng.randint(max(lo, hi // 2), hi) for _ in range(n)]
    elif pattern == 'extremes':
        out = [rng.choice([lo, lo + 1, hi, hi - 1, 0, 1, lo + rng.randint(0, n),
                           hi - rng.randint(0, n)]) for _ in range(n)]
    elif pattern == 'dups':
        pool = [rng.randint(lo, hi) for _ in range(max(1, n // 8))]
        out = [rng.choice(pool) for _ in range(n)]
    elif pattern == 'window':
        # keys that vary in w byte positions only
        w = rng.randint(1, bits // 8)
        base = rng.choice([lo, 0, hi - (256 ** w - 1), rng.randint(lo, hi)])
        base = min(max(base, lo), hi - (256 ** w - 1)) if \
            hi - (256 ** w - 1) >= lo else lo
        out = [min(hi, base + rng.randrange(256 ** w)) for _ in range(n)]
    elif pattern == 'shifted':
        # all keys agree in one or more LOW bytes and differ above them
        # (multiples of 256, (hi << 32) | lo with few distinct lo, ...): a
        # radix pass that can be skipped lies below passes that cannot
        sh = 8 * rng.randint(1, bits // 8 - 1)
        const = rng.randrange(1 << sh) if rng.random() < .5 else 0
        top = (hi - const) >> sh
        bot = -((-(lo - const)) >> sh) if lo < 0 else 0
        out = [((rng.randint(bot, top)) << sh) + const for _ in range(n)]
        if rng.random() < .3 and n > 3:
            # ... plus a handful of keys that differ in the low bytes only
            out[:3] = [min(hi, max(lo, out[0] + d)) for d in (1, 2, 255)]
    elif pattern == 'ascending-disjoint':
        start = rng.randint(lo, max(lo, hi - 10 * n - 1))
        out = [start + 3 * i for i in range(n)]
    return [k for k in out if lo <= k <= hi]


PATTERNS = ['uniform', 'zero', 'signbit', 'topbit', 'extremes', 'dups',
            'window', 'ascending-disjoint', 'shifted', 'shifted']


class GetitemSeq:
    """Iterable only through the legacy sequence protocol (__getitem__ and
    __len__, no __iter__), like ctypes arrays."""

    def __init__(self, items):
        self._items = list(items)

    def __len__(self):
        return len(self._items)

    def __getitem__(self, i):
        return self._items[i]


class LazyOuter:
    """The sequence handed to multiunion builds every operand on demand
    (a fresh container each time it is asked): nothing else keeps the
    operands alive while multiunion walks the sequence."""

    def __init__(self, recipes):
        self._recipes = recipes

    def __len__(self):
        return len(self._recipes)

    def __getitem__(self, i):
        r = self._recipes[i]
        return r() if callable(r) else r


def lazy_outer(ops):
    recipes = []
    for o in ops:
        if isinstance(o, int):
            recipes.append(o)
        elif hasattr(o, 'keys') and hasattr(o, '_p_state'):
            ks = list(o.keys())
            recipes.append(lambda t=type(o), ks=ks: t(
                ks if not hasattr(t, 'items') else [(k, 0) for k in ks]))
        elif isinstance(o, range):
            recipes.append(o)
        else:
            ks = list(o)
            recipes.append(lambda t=(tuple if isinstance(o, tuple) else list),
                           ks=ks: t(ks))
    return LazyOuter(recipes)


def split_operands(fam, impl, rng, keys, rec):
    """Distribute keys over 0..12 operands of mixed kinds."""
    if not keys:
        r = rng.random()
        if r < .3:
            return [], []
        return [fam.cls('Set', impl)()], ['Set']
    nops = rng.randint(1, min(12, len(keys)))
    cuts = sorted(rng.sample(range(1, len(keys)), nops - 1)) if nops > 1 \
        else []
    parts = [keys[a:b] for a, b in zip([0] + cuts, cuts + [len(keys)])]
    if rng.random() < .5 and len(parts) > 1:
        # touching / overlapping operands: repeat a boundary key
        i = rng.randrange(len(parts) - 1)
        if parts[i]:
            parts[i + 1] = [max(parts[i])] + parts[i + 1]
            rec.ev(impl + ':dups-across-operands')
    ops, kinds = [], []
    vals = fam.values(rng)
    for part in parts:
        r = rng.random()
        if len(part) == 1 and r < .5:
            ops.append(part[0])
            kinds.append('int')
            continue
        kind = rng.choice(['Set', 'TreeSet', 'Bucket', 'BTree', 'list',
                           'tuple', 'generator', 'pyset', 'range',
                           'other-impl', 'Set', 'list', 'getitem-seq',
                           'keys-view', 'values-view', 'foreign',
                           'subclass'])
        if kind in ('keys-view', 'values-view'):
            # the lazy keys() of a tree; values() of a mapping whose VALUES
            # are our keys (in key order of the mapping: neither sorted nor
            # necessarily duplicate-free as a sequence)
            obj, _, _ = setops.make_iterable(kind, set(part), rng, fam, impl)
            ops.append(obj)
        elif kind == 'foreign':
            # a container of ANOTHER family (either implementation) that
            # happens to hold keys of ours
            of = families.get(rng.choice(['OO', 'LL' if fam.kc in 'IU'
                                          else 'OO', 'OI']))
            if of.kc != 'O' and not all(of.key_ok(k) for k in part):
                of = families.get('OO')
            c, _ = setops.make_container(
                of, rng.choice(setops.CONTAINER_KINDS),
                rng.choice(['c', 'py']), set(part), of.values(rng), rng)
            ops.append(c)
        elif kind == 'subclass':
            c, _ = setops.make_container(
                fam, rng.choice(setops.CONTAINER_KINDS), impl, set(part),
                vals, rng, subclass=True)
            ops.append(c)
        elif kind in setops.CONTAINER_KINDS:
            lo_, hi_ = INT_RANGES[fam.kc]
            pool = [rng.randint(lo_, hi_) for _ in range(rng.choice(
                [0, 5, 40]))] + [min(hi_, k + 1) for k in part[:10]]
            c, _ = setops.make_container(fam, kind, impl, set(part), vals,
                                         rng, pool=pool)
            ops.append(c)
        elif kind == 'range':
            a = min(part)
            hi = INT_RANGES[fam.kc][1]
            r_ = range(a, min(a + min(len(part), 50), hi + 1))
            ops.append(r_)
            ops.append(list(part))
            kinds.append('range')
            kind = 'list'
        elif kind == 'list':
            ops.append(list(part))
        elif kind == 'tuple':
            ops.append(tuple(part))
        elif kind == 'getitem-seq':
            ops.append(GetitemSeq(part))
        elif kind == 'generator':
            ops.append((k for k in list(part)))
        elif kind == 'pyset':
            ops.append(set(part))
        else:
            obj, _, _ = setops.make_iterable('other-impl', set(part), rng,
                                             fam, impl)
            ops.append(obj)
        kinds.append(kind)
    return ops, kinds


def run_shard(spec, rec):
    fam = families.get(spec['family'])
    rng = rng_for(spec['seed'], ID, spec['label'])
    sizes = list(SIZES) + ([20000] if spec.get('big') else [])
    for i in range(spec['cases']):
        impl = 'c' if (i % 4 != 3 or spec['variant'] in ('asan', 'vg')) else 'py'
        n = rng.choice(sizes)
        if impl == 'py' and n > 2000:
            n = 802
        if impl == 'py' and i % 16 == 3:
            # the pure-Python implementation gathers everything in memory:
            # totals well beyond any internal batching threshold
            n = rng.choice([4000, 5000, 9000])
            rec.ev('py:n>=4000')
        pattern = rng.choice(PATTERNS)
        keys = gen_keys(fam, rng, n, pattern)
        lo, hi = INT_RANGES[fam.kc]
        if n > 2 and pattern in ('extremes', 'uniform', 'topbit') and keys:
            keys[0] = lo
            keys[-1] = hi
        want = sorted(set(keys))
        # operands may contain extra keys (range operand)
        ops, kinds = split_operands(fam, impl, rng, keys, rec)
        allk = set(keys)
        for o, k in zip(ops, kinds):
            pass
        for o in ops:
            if isinstance(o, range):
                allk |= set(o)
        o = None
        want = sorted(allk)
        desc = dict(family=fam.name, impl=impl, n=len(keys), pattern=pattern,
                    operand_kinds=kinds[:12])
        rec.journal(_srepr(desc))
        fn = fam.fn('multiunion', impl)
        keep = None
        if i % 3 == 0:
            # operands as they come out of a database: ghosts
            keep, ng = setops.store_and_ghostify(ops, rec, impl + ':')
            desc['ghost_operands'] = ng
        if keep is None and i % 5 == 1:
            # every operand is created when multiunion asks for it and dies
            # as soon as multiunion lets go of it
            try:
                ops = lazy_outer(ops)
                rec.ev(impl + ':lazy-outer-sequence')
                desc['outer'] = 'lazy'
            except Exception:
                pass
        if i % 15 == 7:
            # an operand of ANOTHER family holding a key that is not one of
            # ours: it has to be refused (TypeError), whichever
            # implementation the operand is written in
            lo_, hi_ = INT_RANGES[fam.kc]
            badkey = rng.choice(['a', (1,), hi_ + 1 + rng.randint(0, 5),
                                 lo_ - 1 - rng.randint(0, 5), 2 ** 70])
            if isinstance(badkey, int) and -2 ** 63 <= badkey < 2 ** 63 \
                    and fam.kc in 'IU':
                of = families.get('LL')
            else:
                of = families.get('OO')
            okind = rng.choice(setops.CONTAINER_KINDS)
            # (object keys must be orderable among themselves)
            good = [k for k in want[:3] if of.key_ok(k)] \
                if isinstance(badkey, int) else []
            fc = of.cls(okind, rng.choice(['c', 'py']))()
            for k in good + [badkey]:
                if okind in ('Bucket', 'BTree'):
                    fc[k] = 0
                else:
                    fc.add(k)
            rec.evaluations += 1
            rec.ev(impl + ':foreign-operand-with-unusable-key')
            try:
                r_ = fn([fc] if rng.random() < .5 else [list(want[:2]), fc])
                rec.violation('unusable-key-of-foreign-operand-accepted',
                              operand=type(fc).__name__, key=brief(badkey),
                              result=brief(list(r_), 120), **desc)
            except TypeError:
                pass
            except Exception as e:
                rec.violation('unusable-key-of-foreign-operand-accepted',
                              operand=type(fc).__name__, key=brief(badkey),
                              raised='%s: %s' % (type(e).__name__, e),
                              **desc)
            del fc
        try:
            r = fn(ops)
        except Exception as e:
            rec.violation('multiunion-raised', detail='%s: %s' % (
                type(e).__name__, e), sample_keys=brief(keys[:20]), **desc)
            continue
        rec.evaluations += 1
        for k in set(kinds):
            rec.ev('%s:operand:%s' % (impl, k))
        if len(want) > 800:
            rec.ev('%s:%s:n>800' % (impl, fam.name))
            if lo in allk and hi in allk:
                rec.ev('%s:%s:n>800:extremes' % (impl, fam.name))
        szc = (0 if not want else 1 if len(want) <= 25 else
               2 if len(want) < 800 else 3)
        rec.seen(impl, fam.name, szc, pattern, tuple(sorted(set(kinds))))
        got = list(r)
        if got != want:
            bad = next((j for j, (a, b) in enumerate(zip(got, want))
                        if a != b), min(len(got), len(want)))
            rec.violation('wrong-union', len_got=len(got), len_want=len(want),
                          first_diff=bad, got=brief(got[max(0, bad - 2):bad + 4]),
                          want=brief(want[max(0, bad - 2):bad + 4]), **desc)
            continue
        if setops.kind_of(r, fam) != 'Set':
            rec.violation('wrong-result-kind', observed=type(r).__name__,
                          **desc)
            continue
        if len(r) != len(want):
            rec.violation('wrong-len', observed=len(r), expected=len(want),
                          **desc)
            continue
        # behaves as a normal Set: membership and range queries
        probes = []
        if want:
            probes = [want[0], want[-1], rng.choice(want), rng.choice(want)]
        absent = [k for k in (lo, hi, 0, want[0] - 1 if want and want[0] > lo
                              else None, want[-1] + 1 if want and
                              want[-1] < hi else None)
                  if k is not None and k not in allk]
        bad = [k for k in probes if k not in r] + [k for k in absent if k in r]
        if bad:
            rec.violation('membership-wrong', keys=brief(bad), **desc)
            continue
        if want:
            a, b = sorted([rng.choice(want), rng.choice(want)])
            rk = list(r.keys(a, b))
            wk = [k for k in want if a <= k <= b]
            if rk != wk or r.minKey() != want[0] or r.maxKey() != want[-1]:
                rec.violation('range-query-on-result-wrong', lo=a, hi=b,
                              got=brief(rk[:10]), want=brief(wk[:10]), **desc)
                continue
        if i % 37 == 0:
            rec.sample(dict(desc, result_len=len(got),
                            result_head=brief(got[:6])))
