"""C14 - an exception raised by a key comparison leaves the container
intact (fault enumeration at run time)."""
from ..harness import safe_repr as _srepr  # noqa: E402
import gc

from .. import families, gen, harness, hist, inject, ledger
from ..harness import brief
from ..inject import CmpBoom, FKey
from ..runner import rng_for

ID = 'C14'
LEVEL = 'fault_enumeration'
RULE = ('evaluations = injected comparison failures: for every (container '
        'reached by a generated history with FKey keys, operation from '
        '{get, [], in, has_key, insert new, replace, delete, pop, '
        'setdefault, minKey/maxKey(b), range search, update, add/remove/'
        'discard, |= -= ^= &=, union/intersection/difference with a '
        'container and with an unsorted list, _p_resolveConflict}) the '
        'comparisons of a clean run are counted (N) and the operation is '
        're-run on a rebuilt container failing the n-th comparison, for all '
        'n <= N (sampled above 12 per operation in the quick tier); after '
        'each failure: the exception must reach the caller, _check / check() '
        '/ walker pass, contents are the previous ones or the completed '
        'change (bulk operations: a prefix of their element-wise effect), '
        'the reference-count ledger of all keys and values balances (C), and '
        '12 further model-checked calls behave; distinct_nontrivial = '
        'distinct (impl, kind, operation, fault position class '
        '[first/middle/last], tree-shape class, contents outcome '
        '[unchanged/completed/prefix]) tuples')
ASSUMPTIONS = ['the comparison counter of FKey covers all six rich '
               'comparisons (C compares with < then ==, Python with identity/'
               '== then >)', 'fault positions are enumerated per operation '
               'on containers sampled from histories']

FAMS = ['OO', 'OI', 'OL', 'OU', 'OQ']


def must_see(tier):
    m = {'faults-injected': 3000}
    for impl in ('c', 'py'):
        for op in ('get', 'contains', 'setitem-new', 'setitem-replace',
                   'delitem', 'pop', 'setdefault', 'minKey', 'maxKey',
                   'keys-range', 'update', 'add', 'remove', 'discard', 'ior',
                   'isub', 'fn:union', 'fn:intersection', 'fn:difference',
                   'fn:union-list', 'resolve', 'popitem', 'spop', 'op:|',
                   'op:&', 'op:-', 'isdisjoint'):
            m['%s:fault:%s' % (impl, op)] = 5
        m[impl + ':fault:delete-leaf-minimum'] = 5
        m[impl + ':fault:delete-emptying-leaf'] = 3
        m[impl + ':outcome:unchanged'] = 100
        m[impl + ':outcome:completed'] = 20
        m[impl + ':typeerror-fault-reached-caller'] = 200
    # (the C range search compares at creation only: a C view that exists
    # has no comparison left to fail)
    m['py:view-reused-after-fault'] = 30
    m['c:ledger-checks'] = 1000
    m['c:node-census'] = 20
    return m


def plan(tier, seed):
    q = tier == 'quick'
    specs = []
    for fam in FAMS:
        for impl in ('c', 'py'):
            specs.append(dict(label='%s-%s' % (fam, impl), family=fam,
                              impl=impl, containers=5 if q else 60,
                              all_n=not q, seed=seed, tier=tier,
                              variant='mon', timeout=900 if q else 7200))
    for fam in (['OO'] if q else FAMS):
        specs.append(dict(label='%s-c-asan' % fam, family=fam, impl='c',
                          containers=2 if q else 12, all_n=False,
                          seed=seed + 17, tier=tier, variant='asan',
                          timeout=1500 if q else 7200))
    return specs


# ---- pools and history encoding -------------------------------------------

class World:
    def __init__(self, fam, rng):
        self.fam = fam
        self.KP = [FKey(i) for i in range(-10, 16)]     # key pool
        if fam.vc == 'O':
            self.VP = [ledger.TV(j) for j in range(6)]  # tracked values
        else:
            self.VP = [0, 1, 2, 3, 7, 11]
        self.led = ledger.Ledger([self.KP] + ([self.VP] if fam.vc == 'O'
                                              else []))

    def k(self, i):
        return self.KP[i]

    def v(self, j):
        return self.VP[j]

    def vnum(self, v):
        return v.v if isinstance(v, ledger.TV) else v


def gen_history(rng, is_mapping, nk, nv):
    ops = []
    n = rng.randint(4, 55)
    phase = 'grow'
    for i in range(n):
        if i and i % 15 == 0:
            phase = rng.choice(['grow', 'shrink', 'churn'])
        r = rng.random()
        pins = {'grow': .8, 'shrink': .25, 'churn': .5}[phase]
        ki = rng.randrange(nk)
        if r < pins:
            ops.append(('set', ki, rng.randrange(nv)) if is_mapping
                       else ('add', ki))
        else:
            ops.append(('del', ki))
    return ops


def apply_hist(c, m, ops, W, is_mapping):
    for op in ops:
        if op[0] == 'set':
            c[W.k(op[1])] = W.v(op[2])
            m[op[1]] = op[2]
        elif op[0] == 'add':
            c.add(W.k(op[1]))
            m[op[1]] = None
        elif op[0] == 'del':
            if op[1] in m:
                if is_mapping:
                    del c[W.k(op[1])]
                else:
                    c.remove(W.k(op[1]))
                del m[op[1]]


def contents_idx(c, W, is_mapping):
    """Contents as indices into the pools (no references kept)."""
    base = W.KP[0].n
    if is_mapping:
        return [(k.n - base, W.VP.index(v) if not isinstance(v, ledger.TV)
                 else v.v) for k, v in c.items()]
    return [k.n - base for k in c.keys()]


def model_contents(m, is_mapping):
    ks = sorted(m)
    return [(k, m[k]) for k in ks] if is_mapping else ks


# ---- target operations ------------------------------------------------------
# each: (name, run(c, W) -> result, effects(m) -> list of allowed models)

def target_ops(rng, W, m, is_mapping, kind, fam, impl, walk):
    nk, nv = len(W.KP), len(W.VP)
    present = sorted(m)
    absent = [i for i in range(nk) if i not in m]
    ops = []

    def pick_present():
        return rng.choice(present) if present else rng.randrange(nk)

    def pick_absent():
        return rng.choice(absent) if absent else rng.randrange(nk)

    def single(name, ki, fn, eff):
        ops.append((name, fn, eff, ki))

    def same(mm):
        return [dict(mm)]
    kp, ka = pick_present(), pick_absent()
    # leaf-minimum / leaf-emptying deletes (separator refresh, unlink paths)
    special = []
    if walk is not None and len(walk.leaf_keys) > 1:
        base = W.KP[0].n
        mins = [lk[0].n - base for lk in walk.leaf_keys[1:]]
        solo = [lk[0].n - base for lk in walk.leaf_keys if len(lk) == 1]
        if mins:
            special.append(('delete-leaf-minimum', rng.choice(mins)))
        if solo:
            special.append(('delete-emptying-leaf', rng.choice(solo)))

    def del_eff(ki):
        def eff(mm):
            a = dict(mm)
            a.pop(ki, None)
            return [dict(mm), a]
        return eff

    def set_eff(ki, vi):
        def eff(mm):
            a = dict(mm)
            a[ki] = vi
            return [dict(mm), a]
        return eff
    if is_mapping:
        vi = rng.randrange(nv)
        for k_ in (kp, ka):
            single('get', k_, lambda c, k_=k_: c.get(W.k(k_)), same)
            single('contains', k_, lambda c, k_=k_: W.k(k_) in c, same)
        single('getitem', kp, lambda c: c[W.k(kp)], same)
        single('has_key', ka, lambda c: c.has_key(W.k(ka)), same)
        single('setitem-new', ka,
               lambda c: c.__setitem__(W.k(ka), W.v(vi)), set_eff(ka, vi))
        single('setitem-replace', kp,
               lambda c: c.__setitem__(W.k(kp), W.v(vi)), set_eff(kp, vi))
        single('delitem', kp, lambda c: c.__delitem__(W.k(kp)), del_eff(kp))
        single('delitem', ka, lambda c: c.__delitem__(W.k(ka)), same)
        single('pop', kp, lambda c: c.pop(W.k(kp)), del_eff(kp))
        single('pop', ka, lambda c: c.pop(W.k(ka), None), same)
        def popitem_eff(mm):
            a = dict(mm)
            if a:
                a.pop(min(a))
            return [dict(mm), a]
        if present:
            single('popitem', None, lambda c: c.popitem(), popitem_eff)
        single('setdefault', ka,
               lambda c: c.setdefault(W.k(ka), W.v(vi)), set_eff(ka, vi))
        single('setdefault', kp,
               lambda c: c.setdefault(W.k(kp), W.v(vi)), same)
        if kind == 'BTree':
            single('insert', ka, lambda c: c.insert(W.k(ka), W.v(vi)),
                   set_eff(ka, vi))
        for nm, ki in special:
            single('delitem', ki, lambda c, ki=ki: c.__delitem__(W.k(ki)),
                   del_eff(ki))
            ops[-1] = (ops[-1][0], ops[-1][1], ops[-1][2], ki, nm)
        pairs = [(rng.randrange(nk), rng.randrange(nv)) for _ in range(3)]

        def upd_eff(mm):
            out = [dict(mm)]
            a = dict(mm)
            for ki_, vi_ in pairs:
                a[ki_] = vi_
                out.append(dict(a))
            return out
        single('update', None,
               lambda c: c.update([(W.k(a), W.v(b)) for a, b in pairs]),
               upd_eff)
    else:
        for k_ in (kp, ka):
            single('contains', k_, lambda c, k_=k_: W.k(k_) in c, same)
        single('add', ka, lambda c: c.add(W.k(ka)), set_eff(ka, None))
        single('add', kp, lambda c: c.add(W.k(kp)), same)
        single('remove', kp, lambda c: c.remove(W.k(kp)), del_eff(kp))
        single('discard', kp, lambda c: c.discard(W.k(kp)), del_eff(kp))
        single('discard', ka, lambda c: c.discard(W.k(ka)), same)

        def spop_eff(mm):
            outs = [dict(mm)]
            for pick in (min, max):
                a = dict(mm)
                if a:
                    a.pop(pick(a))
                outs.append(a)
            return outs
        if present:
            single('spop', None, lambda c: c.pop(), spop_eff)
        for nm, ki in special:
            single('remove', ki, lambda c, ki=ki: c.remove(W.k(ki)),
                   del_eff(ki))
            ops[-1] = (ops[-1][0], ops[-1][1], ops[-1][2], ki, nm)
        ks = [rng.randrange(nk) for _ in range(4)]

        def bulk(elem):
            def eff(mm):
                out = [dict(mm)]
                a = dict(mm)
                for ki_ in ks:
                    elem(a, ki_)
                    out.append(dict(a))
                return out
            return eff

        def e_add(a, ki_):
            a[ki_] = None

        def e_del(a, ki_):
            a.pop(ki_, None)

        def e_xor(a, ki_):
            if ki_ in a:
                del a[ki_]
            else:
                a[ki_] = None
        single('update', None, lambda c: c.update([W.k(i) for i in ks]),
               bulk(e_add))
        single('ior', None, lambda c: c.__ior__([W.k(i) for i in ks]),
               bulk(e_add))
        single('isub', None, lambda c: c.__isub__([W.k(i) for i in ks]),
               bulk(e_del))
        uks = list(dict.fromkeys(ks))

        def xor_eff(mm):
            out = [dict(mm)]
            a = dict(mm)
            for ki_ in uks:
                e_xor(a, ki_)
                out.append(dict(a))
            return out
        single('ixor', None, lambda c: c.__ixor__([W.k(i) for i in uks]),
               xor_eff)
        single('iand', None, lambda c: c.__iand__([W.k(i) for i in ks]),
               None)          # algorithm-specific intermediate states
    b1, b2 = sorted([rng.randrange(nk), rng.randrange(nk)])
    single('minKey', b1, lambda c: c.minKey(W.k(b1)), same)
    single('maxKey', b2, lambda c: c.maxKey(W.k(b2)), same)
    single('keys-range', None,
           lambda c: _lst(c.keys(W.k(b1), W.k(b2))), same)
    single('keys-range', None,
           lambda c: _lst(c.keys(W.k(b1), W.k(b2), True, True)), same)
    if is_mapping:
        single('items-range', None,
               lambda c: _lst(c.items(W.k(b1), None, True, True)), same)
    # ONE view object that meets the fault and is used again afterwards
    # (its cached length / cursor must not remember the interrupted call)

    def view_op(how):
        def run(c):
            inject.S.armed = False
            v = c.keys(W.k(b1), W.k(b2))
            _VIEW[0] = (v, b1, b2)
            inject.S.armed = True
            if how == 'len':
                return len(v)
            if how == 'index':
                try:
                    return (v[0], v[-1])
                except IndexError:
                    return None
            return _lst(v)
        return run
    for how in ('len', 'index', 'iter'):
        single('view-' + how, None, view_op(how), same)
    # module-level set algebra: the container is an operand, not a target
    oks = [rng.randrange(nk) for _ in range(rng.randint(1, 6))]
    other_kind = rng.choice(['Set', 'TreeSet', 'Bucket', 'BTree'])

    def other(c):
        o = fam.cls(other_kind, impl)()
        for i in sorted(set(oks)):
            if other_kind in ('Bucket', 'BTree'):
                o[W.k(i)] = W.v(0)
            else:
                o.add(W.k(i))
        return o
    for fname in ('union', 'intersection', 'difference'):
        def run(c, fname=fname):
            inject.S.armed = False
            o = other(c)
            inject.S.armed = True
            return _lst(fam.fn(fname, impl)(c, o).keys())
        single('fn:' + fname, None, run, same)
    if fam.has_weighted:
        for fname in ('weightedUnion', 'weightedIntersection'):
            def runw(c, fname=fname):
                inject.S.armed = False
                o = other(c)
                inject.S.armed = True
                return _lst(fam.fn(fname, impl)(c, o)[1].keys())
            single('fn:' + fname, None, runw, same)
    for sym, opf in (('|', lambda a, b: a | b), ('&', lambda a, b: a & b),
                     ('-', lambda a, b: a - b)):
        def runo(c, opf=opf):
            inject.S.armed = False
            o = other(c)
            inject.S.armed = True
            return _lst(opf(c, o).keys())
        single('op:' + sym, None, runo, same)
    if not is_mapping:
        def rund(c):
            inject.S.armed = False
            o = other(c)
            inject.S.armed = True
            return (c.isdisjoint(o), c.isdisjoint([W.k(i) for i in oks]))
        single('isdisjoint', None, rund, same)
    single('fn:union-list', None,
           lambda c: _lst(fam.fn('union', impl)(
               c, [W.k(i) for i in oks]).keys()), same)
    single('fn:difference-list', None,
           lambda c: _lst(fam.fn('difference', impl)(
               c, [W.k(i) for i in oks]).keys()), same)
    return ops


_VIEW = [None]


def _lst(seq):
    """Materialise a lazy sequence WITHOUT list(): list() first asks for a
    length hint and CPython's PyObject_LengthHint swallows a TypeError raised
    by __len__ - which, for the pure-Python lazy sequences, runs key
    comparisons.  (Seen as a false alarm with TypeError-class faults.)"""
    return [x for x in seq]


def resolve_case(rng, W, fam, impl, is_mapping):
    """(old, com, new) states with FKey keys for a leaf conflict merge."""
    nk = 10

    def state(d):
        ks = sorted(d)
        if is_mapping:
            flat = []
            for k in ks:
                flat += [W.k(k), W.v(d[k])]
            return (tuple(flat),)
        return (tuple(W.k(k) for k in ks),)
    old = {i: rng.randrange(3) for i in rng.sample(range(nk), rng.randint(
        1, 6))}
    com, new = dict(old), dict(old)
    free = [i for i in range(nk) if i not in old]
    rng.shuffle(free)
    if free:
        com[free[0]] = 1
    if len(free) > 1:
        new[free[1]] = 2
    if len(old) > 2 and rng.random() < .5:
        new.pop(sorted(old)[-1])
    return state(old), state(com), state(new)


def run_shard(spec, rec):
    fam = families.get(spec['family'])
    impl = spec['impl']
    for ci in range(spec['containers']):
        for kind in families.KINDS:
            rng = rng_for(spec['seed'], ID, spec['label'], kind, ci)
            run_container(fam, kind, impl, rng, rec, spec['all_n'], ci)


def fresh(fam, kind, impl, sizes):
    cls = fam.cls(kind, impl)
    if sizes and kind in families.TREE_KINDS:
        harness.set_node_sizes(cls, *sizes)
    return cls()


def run_container(fam, kind, impl, rng, rec, all_n, ci):
    """One container through every enumerated fault - and afterwards no
    NODE of the family may be left alive (C): an error exit that forgets to
    drop a bucket it was holding leaks the bucket and everything in it."""
    if impl != 'c':
        return _run_container(fam, kind, impl, rng, rec, all_n, ci)
    from .c16 import node_census
    c0 = node_census(fam)
    nv0 = len(rec.violations)
    _run_container(fam, kind, impl, rng, rec, all_n, ci)
    _VIEW[0] = None
    left = node_census(fam) - c0
    rec.ev('c:node-census')
    if left > 0 and len(rec.violations) == nv0:
        rec.violation('node-objects-left-after-comparison-errors', left=left,
                      family=fam.name, kind=kind, impl=impl, container=ci)


def _run_container(fam, kind, impl, rng, rec, all_n, ci):
    is_mapping = kind in families.MAPPING_KINDS
    is_tree = kind in families.TREE_KINDS
    sizes = gen.NODE_SIZES[rng.randrange(len(gen.NODE_SIZES))] if is_tree \
        else None
    W = World(fam, rng)
    hops = gen_history(rng, is_mapping, len(W.KP), len(W.VP))
    if ci % 7 == 3:
        hops = []            # operations on an empty container
    inject.reset()
    # every other container: the failing comparison raises a TypeError
    # subclass, as a real comparison of unorderable keys does
    boom_t = ci % 2 == 1
    inject.S.boom = inject.CmpBoomT if boom_t else CmpBoom
    desc = dict(family=fam.name, kind=kind, impl=impl, sizes=sizes,
                boom='TypeError' if boom_t else 'Exception')

    def rebuild():
        c = fresh(fam, kind, impl, sizes)
        m = {}
        apply_hist(c, m, hops, W, is_mapping)
        return c, m
    c0, m0 = rebuild()
    from .. import walker
    walk = walker.walk(c0, is_mapping) if is_tree else None
    shape = walker.shape_class(walk) if walk is not None else (
        'leaf', min(len(m0), 3))
    ops = target_ops(rng, W, m0, is_mapping, kind, fam, impl, walk)
    del c0
    for entry in ops:
        name, fn, eff, ki = entry[:4]
        special = entry[4] if len(entry) > 4 else None
        # ---- count the comparisons of a clean run --------------------------
        c, m = rebuild()
        inject.arm()
        try:
            try:
                fn(c)
            except (KeyError, ValueError):
                pass
        finally:
            N = inject.disarm()
        _VIEW[0] = None
        del c
        if N == 0:
            continue
        if all_n or N <= 12:
            ns = list(range(1, N + 1))
        else:
            ns = sorted(set([1, 2, N - 1, N] + rng.sample(range(1, N + 1),
                                                          8)))
        for n in ns:
            c, m = rebuild()
            before = model_contents(m, is_mapping)
            snap0 = W.led.snapshot([(c, is_mapping, is_tree)]) \
                if impl == 'c' else None
            rec.journal(_srepr((desc, hops, name, ki, n, N)))
            inject.arm(fail_at=n)
            exc = None
            try:
                try:
                    r = fn(c)
                    del r
                except CmpBoom:
                    exc = 'CmpBoom'
                except Exception as e:
                    exc = type(e).__name__
                    del e
            finally:
                inject.disarm()
            rec.evaluations += 1
            rec.ev('faults-injected')
            rec.ev('%s:fault:%s' % (impl, name))
            if special:
                rec.ev('%s:fault:%s' % (impl, special))
            if not m and name in ('setitem-new', 'add', 'insert',
                                  'setdefault'):
                rec.ev(impl + ':fault:insert-into-empty')
            pos = 'first' if n == 1 else 'last' if n == N else 'middle'
            d = dict(desc, op=name, key_index=ki, fault_at=n,
                     comparisons=N, history=brief(hops, 400),
                     special=special)
            if exc != 'CmpBoom':
                # F14: the C Bucket get()/[] and Set/TreeSet discard()
                # translate ANY TypeError into "absent" ("Failed to compare,
                # so it can't be in the tree"): a comparison failing with a
                # TypeError never reaches the caller there
                f14 = (impl == 'c' and boom_t and exc in (None, 'KeyError')
                       and ((kind == 'Bucket' and name in ('get', 'getitem'))
                            or (not is_mapping and name == 'discard')))
                rec.violation('comparison-error-did-not-reach-caller',
                              observed=exc,
                              **(dict(d, finding='F14') if f14 else d))
                if not f14:
                    continue
                rec.ev('c:f14-swallowed')
            elif boom_t:
                rec.ev(impl + ':typeerror-fault-reached-caller')
            # ---- soundness ------------------------------------------------
            if is_tree:
                errs, _w = hist.structural_checks(c, is_mapping)
                del _w      # (the walk holds references to the keys)
                if errs:
                    rec.violation('container-damaged-after-comparison-error',
                                  errors=errs[:3], **d)
                    continue
            try:
                got = contents_idx(c, W, is_mapping)
            except Exception as e:
                rec.violation('contents-unreadable-after-comparison-error',
                              detail='%s: %s' % (type(e).__name__, e), **d)
                continue
            outcome = 'n/a'
            if eff is not None:
                allowed = [model_contents(a, is_mapping) for a in eff(m)]
                if got not in allowed:
                    rec.violation('partial-change-after-comparison-error',
                                  observed=brief(got, 300),
                                  allowed=brief(allowed, 400), **d)
                    continue
                outcome = 'unchanged' if got == before else (
                    'completed' if got == allowed[-1] else 'prefix')
                rec.ev('%s:outcome:%s' % (impl, outcome))
            rec.seen(impl, kind, name, pos, shape, outcome)
            # ---- the view that met the fault, used again --------------------
            vw, _VIEW[0] = _VIEW[0], None
            if vw is not None:
                v_, lo_, hi_ = vw
                base_ = W.KP[0].n
                wantv = [x for x in ((k_[0] if is_mapping else k_)
                                     for k_ in got) if lo_ <= x <= hi_]
                obs = None
                try:
                    obs = (len(v_), [k_.n - base_ for k_ in v_],
                           v_[-1].n - base_ if wantv else None,
                           v_[0].n - base_ if wantv else None)
                except Exception as e:
                    obs = '%s: %s' % (type(e).__name__, e)
                del v_, vw
                rec.ev(impl + ':view-reused-after-fault')
                if obs != (len(wantv), wantv, wantv[-1] if wantv else None,
                           wantv[0] if wantv else None):
                    rec.violation('view-misbehaves-after-comparison-error',
                                  observed=brief(obs, 300),
                                  expected=brief(wantv, 300), **d)
                    continue
            # ---- ledger (C) ------------------------------------------------
            if impl == 'c':
                snap1 = W.led.snapshot([(c, is_mapping, is_tree)])
                rec.ev('c:ledger-checks')
                bad = W.led.diff(snap0, snap1)
                if bad:
                    rec.violation('reference-count-imbalance-after-'
                                  'comparison-error',
                                  imbalance=brief(bad[:6]), **d)
                    continue
            # ---- later operations behave -----------------------------------
            mm = dict((k if is_mapping else k, v) for k, v in
                      (got if is_mapping else [(k, None) for k in got]))
            ok = True
            for _ in range(12):
                ki2 = rng.randrange(len(W.KP))
                r2 = rng.random()
                try:
                    if r2 < .5:
                        if is_mapping:
                            vi2 = rng.randrange(len(W.VP))
                            c[W.k(ki2)] = W.v(vi2)
                            mm[ki2] = vi2
                        else:
                            c.add(W.k(ki2))
                            mm[ki2] = None
                    elif r2 < .85:
                        if ki2 in mm:
                            if is_mapping:
                                del c[W.k(ki2)]
                            else:
                                c.remove(W.k(ki2))
                            del mm[ki2]
                    else:
                        if (W.k(ki2) in c) != (ki2 in mm):
                            ok = False
                except Exception as e:
                    ok = False
                    d['detail'] = '%s: %s' % (type(e).__name__, e)
                if contents_idx(c, W, is_mapping) != model_contents(
                        mm, is_mapping):
                    ok = False
                if not ok:
                    break
            if ok and is_tree:
                errs, _w = hist.structural_checks(c, is_mapping)
                del _w
                ok = not errs
                if errs:
                    d['errors'] = errs[:3]
            if not ok:
                rec.violation('misbehaves-after-comparison-error', **d)
                continue
            del c
        if ci == 0 and kind == 'BTree' and name == 'delitem':
            rec.sample(dict(desc, op=name, comparisons=N, faults=len(ns),
                            history=brief(hops, 200)))
    # ---- conflict merge ----------------------------------------------------
    if kind in ('Bucket', 'Set'):
        for _ in range(3):
            st = resolve_case(rng, W, fam, impl, is_mapping)
            cls = fam.cls(kind, impl)
            inject.arm()
            try:
                try:
                    cls()._p_resolveConflict(*st)
                except Exception:
                    pass
            finally:
                N = inject.disarm()
            for n in range(1, N + 1):
                snap0 = W.led.snapshot([]) if impl == 'c' else None
                inject.arm(fail_at=n)
                exc = None
                try:
                    try:
                        r = cls()._p_resolveConflict(*st)
                        del r
                    except CmpBoom:
                        exc = 'CmpBoom'
                    except Exception as e:
                        exc = type(e).__name__
                        del e
                finally:
                    inject.disarm()
                rec.evaluations += 1
                rec.ev('faults-injected')
                rec.ev('%s:fault:resolve' % impl)
                d = dict(desc, op='resolve', fault_at=n, comparisons=N,
                         states=brief(st, 300))
                # a merge may legitimately end in a conflict error before
                # reaching the n-th comparison only if n > its comparisons;
                # here n <= N of the same inputs, so the fault must surface
                if exc != 'CmpBoom':
                    rec.violation('comparison-error-did-not-reach-caller',
                                  observed=exc, **d)
                    continue
                if impl == 'c':
                    snap1 = W.led.snapshot([])
                    rec.ev('c:ledger-checks')
                    bad = W.led.diff(snap0, snap1)
                    if bad:
                        rec.violation('reference-count-imbalance-after-'
                                      'comparison-error',
                                      imbalance=brief(bad[:6]), **d)
