"""C08 - concurrent transactions on a tree merge, serialize or conflict."""
from .. import corpus, families, gen, harness, hist, minidb, walker
from ..families import sort_keys
from ..harness import brief, call, eq
from ..model import RefMap, RefSet, kle, klt
from ..runner import rng_for

ID = 'C08'
LEVEL = 'exploration'
RULE = ('evaluations = two-transaction schedules: a base tree (shape corpus, '
        'node sizes 2..4) is committed through MiniDB, two connections each '
        'run 1-4 calls (chosen from the base shape: delete a leaf minimum vs '
        'insert next to the separator, empty a leaf vs insert into it, split '
        'vs insert, clear vs anything, disjoint keys of one leaf, random), '
        'commit one after the other with conflict resolution, and a fresh '
        'connection judges the stored tree; every writing call is also '
        'checked for the read dependencies it declared (readCurrent events '
        'in the data manager log) and every read call for declaring none; '
        'distinct_nontrivial = distinct (impl, kind, scenario, outcome of '
        'the second commit [merged / serial / conflict+reason / '
        'read-conflict], height) tuples')
ASSUMPTIONS = ['MiniDB implements optimistic commit, conflict resolution '
               'with PersistentReference stubs and read-current checks the '
               'way ZODB does', 'both transactions start from the same '
               'committed snapshot']

QUICK_FAMS = ['OO', 'II', 'LF', 'fs', 'UO', 'OQ']


def must_see(tier):
    m = {'warm-connection': 50, 'outcome:merged': 20, 'outcome:serial-no-merge': 20,
         'outcome:conflict:12': 1, 'outcome:conflict:13': 1,
         'outcome:conflict:11': 1, 'outcome:conflict:0': 1,
         'outcome:read-conflict': 5, 'height>=3': 20,
         'write-dependency-checks': 500, 'pure-read-checks': 500,
         'path-node-was-ghost-at-write': 100}
    for s in SCENARIOS:
        m['scenario:' + s] = 5
    m['third-transaction'] = 200
    m['persistent-values'] = 30
    return m


SCENARIOS = ['random', 'min-vs-below', 'empty-vs-insert', 'split-vs-insert',
             'clear-vs-any', 'same-leaf-disjoint', 'same-key',
             'replace-leaf-vs-gap']


def plan(tier, seed):
    q = tier == 'quick'
    fams = QUICK_FAMS if q else list(families.FAMILY_NAMES)
    specs = []
    for fam in fams:
        for impl in ('c', 'py'):
            specs.append(dict(label='%s-%s' % (fam, impl), family=fam,
                              impl=impl, schedules=900 if q else 8000,
                              seed=seed, tier=tier, variant='mon',
                              timeout=900 if q else 7200))
    return specs


def descent_path(tree, key):
    """Interior nodes visited when searching for `key` (from the states)."""
    path = []
    node = tree
    cls = type(tree)
    while True:
        path.append(node)
        st = node.__getstate__()
        if st is None or len(st) == 1:
            return path
        data = st[0]
        children = data[0::2]
        seps = data[1::2]
        i = 0
        for s in seps:
            if kle(s, key):
                i += 1
            else:
                break
        child = children[i]
        if type(child) is not cls:
            return path
        node = child


def gen_tx(fam, kind, rng, scen, role, w, base_keys, universe, values, mls):
    """-> list of (op, args) for one transaction."""
    is_mapping = kind == 'BTree'
    leaves = w.leaf_keys
    free = [k for k in universe if k not in base_keys]
    sfree = sort_keys(free)

    def ins(k):
        return ('setitem', (k, rng.choice(values))) if is_mapping \
            else ('add', (k,))

    def dele(k):
        return (('delitem', (k,)) if is_mapping else ('remove', (k,)))

    def between(a, b):
        return [k for k in sfree if (a is None or klt(a, k)) and
                (b is None or klt(k, b))]

    ops = []
    if scen == 'min-vs-below' and len(leaves) > 1:
        li = rng.randrange(1, len(leaves))
        L = leaves[li]
        if role == 0:
            ops.append(dele(L[0]))
        else:
            prev_last = leaves[li - 1][-1]
            cands = between(prev_last, L[0])[-2:] + \
                between(L[0], L[1] if len(L) > 1 else None)[:2]
            if cands:
                ops.append(ins(rng.choice(cands)))
    elif scen == 'empty-vs-insert' and len(leaves) > 1:
        li = rng.randrange(len(leaves))
        L = leaves[li]
        if role == 0:
            ops += [dele(k) for k in L]
        else:
            lo = L[0]
            hi = leaves[li + 1][0] if li + 1 < len(leaves) else None
            cands = between(lo, hi)
            if cands:
                ops.append(ins(rng.choice(cands)))
            elif is_mapping:
                ops.append(('setitem', (rng.choice(L), rng.choice(values))))
    elif scen == 'split-vs-insert' and leaves:
        li = rng.randrange(len(leaves))
        L = leaves[li]
        lo = L[0]
        hi = leaves[li + 1][0] if li + 1 < len(leaves) else None
        cands = between(lo, hi)
        rng.shuffle(cands)
        if role == 0:
            need = max(1, mls - len(L) + 1)
            ops += [ins(k) for k in cands[:need]]
        else:
            ops += [ins(k) for k in cands[-1:]]
    elif scen == 'clear-vs-any':
        if role == 0:
            ops.append(('clear', ()))
    elif scen == 'replace-leaf-vs-gap' and len(leaves) > 1:
        # one transaction replaces the whole content of a non-first leaf by
        # a key above it (the leaf's minimum, hence its separator, moves
        # up); the other inserts into the gap in between (or just below the
        # old minimum): merged, that key would sit below the new separator
        li = rng.randrange(1, len(leaves))
        L = leaves[li]
        hi = leaves[li + 1][0] if li + 1 < len(leaves) else None
        above = between(L[-1], hi)
        if len(above) >= 2:
            n_ = above[-1] if rng.random() < .6 else rng.choice(above[1:])
            gap = [k for k in above if klt(k, n_)]
            if role == 0:
                ops.append(ins(n_))
                keep = 0 if rng.random() < .75 else 1
                ops += [dele(k) for k in (L[keep:] if keep else L)]
            elif gap:
                ops.append(ins(rng.choice(gap)))
    elif scen == 'same-key' and leaves:
        # both transactions touch the SAME key of one leaf (delete vs value
        # change, change vs change, delete vs delete, duelling inserts)
        li = rng.randrange(len(leaves))
        L = leaves[li]
        lo = L[0]
        hi = leaves[li + 1][0] if li + 1 < len(leaves) else None
        which = rng.random()
        if which < 0.75 and len(L) > 1:
            k = L[-1] if rng.random() < .5 else rng.choice(L[1:])
            how = rng.choice(['del-chg', 'chg-del', 'chg-chg', 'del-del'])
            mine = how.split('-')[role]
            if mine == 'del' or not is_mapping:
                ops.append(dele(k))
            else:
                ops.append(('setitem', (k, rng.choice(values))))
        else:
            cands = between(lo, hi)
            if cands:
                k = cands[-1] if rng.random() < .5 else rng.choice(cands)
                ops.append(ins(k))
    elif scen == 'same-leaf-disjoint' and leaves:
        li = rng.randrange(len(leaves))
        L = leaves[li]
        lo = L[0]
        hi = leaves[li + 1][0] if li + 1 < len(leaves) else None
        cands = between(lo, hi)
        half = cands[role::2]
        if half:
            ops.append(ins(rng.choice(half)))
        mine = L[1:][role::2]
        if mine and rng.random() < .6:
            k = rng.choice(mine)
            if is_mapping and rng.random() < .5:
                ops.append(('setitem', (k, rng.choice(values))))
            else:
                ops.append(dele(k))
    if not ops:
        g = gen.HistoryGen(fam, kind, rng, universe=universe, values=values,
                           adversarial=0.6, read_ops=False)
        g.max_leaf = mls
        g.phase = rng.choice(['grow', 'churn', 'shrink'])
        g.phase_len = 10 ** 6
        for _ in range(rng.randint(1, 4)):
            op, args = g.next_op(w, list(base_keys))
            if op in ('update', 'supdate', 'ior', 'ixor', 'isub', 'iand'):
                continue
            ops.append((op, args))
    return ops[:6]


READ_OPS_M = ['get', 'getitem', 'contains', 'has_key', 'len', 'bool', 'iter',
              'keys', 'values', 'items', 'minKey', 'maxKey']
READ_OPS_S = ['contains', 'has_key', 'len', 'bool', 'iter', 'keys', 'minKey',
              'maxKey']


def run_shard(spec, rec):
    fam = families.get(spec['family'])
    impl = spec['impl']
    for i in range(spec['schedules']):
        kind = 'BTree' if i % 3 else 'TreeSet'
        rng = rng_for(spec['seed'], ID, spec['label'], i)
        run_schedule(fam, kind, impl, rng, rec, i)


def net_changes(base, after):
    t = set()
    for k in after:
        if k not in base or not eq(base[k], after[k]):
            t.add(k)
    for k in base:
        if k not in after:
            t.add(k)
    return t


def nv(v):
    """Persistent values compare by identity; each connection has its own
    object for one oid: compare them by oid."""
    oid = getattr(v, '_p_oid', None)
    if oid is not None and type(v).__name__ == 'Length':
        return ('P', oid)
    return v


def ncontents(lst, is_mapping):
    if not is_mapping or lst is None:
        return lst
    return [(k, nv(v)) for k, v in lst]


def as_dict(model):
    if isinstance(model, RefMap):
        return {k: nv(v) for k, v in model.d.items()}
    if isinstance(model, dict):
        return {k: nv(v) for k, v in model.items()}
    return {k: None for k in model.s}


def run_schedule(fam, kind, impl, rng, rec, idx):
    is_mapping = kind == 'BTree'
    sizes = gen.NODE_SIZES[rng.randrange(len(gen.NODE_SIZES))]
    if idx % 11 == 10:
        sizes = (6, 4)
    vals = [v for v in fam.values(rng)
            if not isinstance(v, float) or families.f32(v) == v]
    if fam.vc == 'O':
        vals = [v for v in vals if not isinstance(v, (list, dict))]
    uni = fam.key_universe(rng, n=rng.choice([16, 28, 40]))
    ls = corpus.grow_container(fam, kind, impl, rng, sizes=sizes,
                               universe=uni, values=vals,
                               steps=rng.randint(5, 80))
    base = ls.m
    # every third object-valued mapping: some values are persistent objects
    # of their own (the commonest use of a BTree).  During conflict
    # resolution they appear as PersistentReference stand-ins that refuse to
    # be compared with a different reference.
    pv_objs = []
    if fam.vc == 'O' and is_mapping and idx % 3 == 1 and len(base) > 0:
        from BTrees.Length import Length
        ks_ = base.sorted_keys()
        for i_, k_ in enumerate(rng.sample(ks_, min(len(ks_), 4))):
            L_ = Length(i_)
            ls.c[k_] = L_
            base.d[k_] = L_
            pv_objs.append(L_)
        rec.ev('persistent-values')
    storage = minidb.Storage()
    connA = minidb.Connection(storage, impl)
    connA.log_events = False
    root_oid = connA.add(ls.c)
    w0 = walker.walk(ls.c, is_mapping)
    if w0.errors:
        return
    connA.commit()
    pv_oids = [o._p_oid for o in pv_objs]
    vals_tx = list(vals)
    if pv_objs:
        vals_tx = vals_tx[:3] + [('PV', i_) for i_ in range(
            len(pv_oids) + 2)] * 2
    if w0.height >= 3:
        rec.ev('height>=3')
    scen = rng.choice(SCENARIOS)
    scen_seed = rng.getrandbits(32)
    roles = [0, 1]
    rng.shuffle(roles)       # both commit orders arise
    desc = dict(family=fam.name, kind=kind, impl=impl, sizes=sizes,
                scenario=scen, base_leaves=brief(w0.leaf_keys, 400))
    txs = []
    three = idx % 5 in (1, 3)          # a third concurrent transaction
    roles3 = roles + [rng.randrange(2)]
    for t in range(3 if three else 2):
        conn = minidb.Connection(storage, impl)
        tree = conn.get(root_oid)
        if idx % 3 == 1 and len(base._keys()):
            # a connection that has been USED BEFORE: an earlier transaction
            # wrote through the same nodes and was aborted (the committed
            # tree is what it was; the nodes stay in this connection's
            # cache with whatever they remember).  Read dependencies belong
            # to a transaction: the next one has to declare its own.
            try:
                k0 = rng.choice(families.sort_keys(list(base._keys())))
                if is_mapping:
                    tree[k0] = rng.choice(vals)
                    if rng.random() < .5:
                        del tree[k0]
                else:
                    tree.remove(k0)
                conn.abort()
                rec.ev('warm-connection')
            except Exception:
                conn = minidb.Connection(storage, impl)
                tree = conn.get(root_oid)
        import random as _random
        ops = gen_tx(fam, kind,
                     _random.Random(scen_seed) if scen == 'same-key' else rng,
                     scen, roles3[t], w0, set(base._keys()), uni, vals_tx,
                     sizes[0])
        if pv_objs:
            pvcache = {}

            def real(v, conn=conn, pvcache=pvcache):
                if isinstance(v, tuple) and len(v) == 2 and v[0] == 'PV' \
                        and isinstance(v[1], int):
                    if v[1] not in pvcache:
                        from BTrees.Length import Length
                        pvcache[v[1]] = conn.get(pv_oids[v[1]]) \
                            if v[1] < len(pv_oids) else Length(1000 + v[1])
                    return pvcache[v[1]]
                if isinstance(v, tuple):
                    return tuple(real(x) for x in v)
                if isinstance(v, list):
                    return [real(x) for x in v]
                return v
            ops = [(op_, real(args_)) for op_, args_ in ops]
        model = base.copy()
        # a few pure reads first: they must not declare dependencies
        for _ in range(rng.randint(0, 2)):
            rop = rng.choice(READ_OPS_M if is_mapping else READ_OPS_S)
            rargs = ()
            if rop in ('get', 'getitem', 'contains', 'has_key'):
                rargs = (rng.choice(uni),)
            elif rop in ('keys', 'values', 'items', 'minKey', 'maxKey') and \
                    rng.random() < .5:
                rargs = (rng.choice([k for k in uni if k is not None]),)
            conn.op_index += 1
            n0 = len(conn.events)
            call(tree, rop, rargs)
            rec.ev('pure-read-checks')
            rc = [e for e in conn.events[n0:] if e[1] == 'readCurrent']
            if rc or conn.read_current:
                rec.violation('pure-read-declared-read-dependency',
                              op=rop, args=brief(rargs), **desc)
                return
        for op, args in ops:
            conn.op_index += 1
            key = args[0] if (op in harness.SINGLE_KEY_OPS and args) else None
            # computing the path must not change which nodes are ghosts when
            # the write reaches them (a dependency on a node that is still a
            # ghost must be declared too)
            before = dict((o._p_oid, o._p_state)
                          for o in conn.cached_objects())
            conn.log_events = False
            path = descent_path(tree, key) if key is not None else []
            stored_oids = [n._p_oid for n in path if n._p_oid is not None and
                           n._p_serial != minidb.Z64]
            for o in conn.cached_objects():
                if before.get(o._p_oid, -1) == -1 and o._p_state == 0:
                    o._p_deactivate()
                    rec.ev('path-node-was-ghost-at-write')
            conn.log_events = True
            stored = path
            rargs = tuple(gen.materialize(a, fam, impl, tree, False)
                          for a in args)
            margs = tuple(gen.materialize(a, fam, impl, model, True)
                          for a in args)
            pre = model.contents()
            ro = call(tree, op, rargs)
            mo = call(model, op, margs)
            if ro[0] != mo[0]:
                return      # C01's business
            if ro[0] == 'ok' and op in harness.MUTATING_OPS and \
                    key is not None and not eq(pre, model.contents()):
                # a real write (the contents changed)
                rec.ev('write-dependency-checks')
                regs = set(o._p_oid for o in conn.registered)
                missing = [o_ for o_ in stored_oids
                           if o_ not in conn.read_current and o_ not in regs]
                if missing:
                    rec.violation('write-did-not-declare-read-dependency',
                                  op=op, args=brief(args), tx=t,
                                  path_len=len(path), missing=len(missing),
                                  missing_is_root=missing[0] == tree._p_oid, **desc)
                    return
        try:
            local = harness.contents(tree, is_mapping)
        except Exception:
            return
        if not eq(local, model.contents()):
            return          # C01's business
        wt = walker.walk(tree, is_mapping)
        if wt.errors:
            return          # C03's business
        txs.append(dict(conn=conn, tree=tree, ops=ops, model=model,
                        inline=wt.inline_nonroot))
    f22 = any(t['inline'] for t in txs)
    if f22:
        # a committed non-root node in the 1-tuple (inline leaf) form: the
        # stored tree may come back F22-damaged (recorded finding)
        rec.ev('f22-shape-in-transaction')
    rec.ev('scenario:' + scen)
    rec.evaluations += 1
    if three and len(txs) < 3:
        three = False
    B, C = txs[:2]
    try:
        B['conn'].commit()
    except minidb.ConflictError as e:
        rec.violation('first-commit-conflicted', detail=str(e), **desc)
        return
    outcome = None
    try:
        C['conn'].commit()
        outcome = 'merged' if C['conn'].last_resolved else 'serial-no-merge'
    except minidb.ConflictError as e:
        if e.kind == 'read':
            outcome = 'read-conflict'
        else:
            outcome = 'conflict:%s' % (e.reason,)
            if e.reason is None and pv_objs and \
                    'PersistentReferences' in str(e.detail):
                # two different persistent values met in a comparison: ZODB
                # turns whatever the resolver raises into a conflict
                outcome = 'conflict:ref-compare'
            elif e.reason is None:
                rec.violation('conflict-resolution-raised-other', detail=brief(
                    e.detail, 300), b_ops=brief(B['ops']),
                    c_ops=brief(C['ops']), **desc)
                return
    rec.ev('outcome:' + outcome)
    rec.seen(impl, kind, scen, outcome, min(w0.height, 3))
    # the stored tree, seen by a fresh connection
    connD = minidb.Connection(storage, impl if idx % 2 else
                              ('py' if impl == 'c' else 'c'))
    connD.log_events = False
    d = connD.get(root_oid)
    errs = []
    try:
        got = ncontents(harness.contents(d, is_mapping), is_mapping)
    except Exception as e:
        got = None
        errs.append(('contents-raised', '%s: %s' % (type(e).__name__, e)))
    # (a merged leaf may legitimately exceed max_leaf_size: no size check)
    serrs, wd = hist.structural_checks(d, is_mapping, sizes=False)
    errs += serrs
    info = dict(b_ops=brief(B['ops'], 300), c_ops=brief(C['ops'], 300),
                outcome=outcome, **desc)
    if f22:
        info['finding'] = 'F22'
    if errs:
        rec.violation('stored-tree-damaged', errors=errs[:3], **info)
        return
    basec = ncontents(base.contents(), is_mapping)
    if outcome.startswith(('conflict', 'read-conflict')):
        want = [ncontents(B['model'].contents(), is_mapping)]
    else:
        # (1) C's operations executed after B's
        serial = B['model'].copy()
        for op, args in C['ops']:
            margs = tuple(gen.materialize(a, fam, impl, serial, True)
                          for a in args)
            call(serial, op, margs)
        want = [ncontents(serial.contents(), is_mapping)]
        # (2) both net change sets applied to the base (disjoint keys)
        bd, Bd, Cd = as_dict(base), as_dict(B['model']), as_dict(C['model'])
        tb, tc = net_changes(bd, Bd), net_changes(bd, Cd)
        if not (tb & tc):
            m = dict(bd)
            for side, t in ((Bd, tb), (Cd, tc)):
                for k in t:
                    if k in side:
                        m[k] = side[k]
                    else:
                        m.pop(k, None)
            ks = sort_keys(list(m))
            want.append([(k, m[k]) for k in ks] if is_mapping else ks)
    if not any(eq(got, w_) for w_ in want):
        rec.violation('stored-contents-neither-serial-nor-merge',
                      observed=brief(got, 400),
                      acceptable=[brief(w_, 400) for w_ in want],
                      base=brief(basec, 400), **info)
        return
    # ---- a third transaction, started from the same base, commits last --
    if three and not f22 and not txs[2]['inline']:
        E = txs[2]
        rec.ev('third-transaction')
        committed = got
        cdict = dict(committed) if is_mapping else {k: None for k in committed}
        try:
            E['conn'].commit()
            outcome3 = 'merged' if E['conn'].last_resolved \
                else 'serial-no-merge'
        except minidb.ConflictError as e:
            outcome3 = 'read-conflict' if e.kind == 'read' else \
                'conflict:%s' % (e.reason,)
            if e.kind != 'read' and e.reason is None and pv_objs and \
                    'PersistentReferences' in str(e.detail):
                outcome3 = 'conflict:ref-compare'
            elif e.kind != 'read' and e.reason is None:
                rec.violation('conflict-resolution-raised-other',
                              detail=brief(e.detail, 300),
                              e_ops=brief(E['ops']), **desc)
                return
        rec.ev('outcome3:' + outcome3)
        rec.seen(impl, kind, scen, 'third', outcome3)
        connF = minidb.Connection(storage, impl)
        connF.log_events = False
        f = connF.get(root_oid)
        info3 = dict(info, e_ops=brief(E['ops'], 300), outcome3=outcome3,
                     committed_before=brief(committed, 300))
        try:
            got3 = ncontents(harness.contents(f, is_mapping), is_mapping)
            serrs3, _w3 = hist.structural_checks(f, is_mapping, sizes=False)
        except Exception as e:
            rec.violation('stored-tree-damaged', errors=[(
                'contents-raised', '%s: %s' % (type(e).__name__, e))],
                **info3)
            return
        if serrs3:
            rec.violation('stored-tree-damaged', errors=serrs3[:3], **info3)
            return
        if outcome3.startswith(('conflict', 'read-conflict')):
            want3 = [committed]
        else:
            serial = RefMap(fam) if is_mapping else RefSet(fam)
            if is_mapping:
                serial.d = dict(cdict)
            else:
                serial.s = set(cdict)
            for op, args in E['ops']:
                margs = tuple(gen.materialize(a_, fam, impl, serial, True)
                              for a_ in args)
                call(serial, op, margs)
            want3 = [ncontents(serial.contents(), is_mapping)]
            bd, Ed = as_dict(base), as_dict(E['model'])
            te = net_changes(bd, Ed)
            tprev = net_changes(bd, cdict)
            if not (te & tprev):
                m = dict(cdict)
                for k in te:
                    if k in Ed:
                        m[k] = Ed[k]
                    else:
                        m.pop(k, None)
                ks = sort_keys(list(m))
                want3.append([(k, m[k]) for k in ks] if is_mapping else ks)
        if not any(eq(got3, w_) for w_ in want3):
            rec.violation('stored-contents-neither-serial-nor-merge',
                          observed=brief(got3, 400),
                          acceptable=[brief(w_, 400) for w_ in want3],
                          base=brief(basec, 400), **info3)
            return
    if idx % 97 == 0:
        rec.sample(dict(info, stored=brief(got, 200)))
