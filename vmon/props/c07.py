"""C07 - leaf conflict resolution is an exact three-way merge or a refusal."""
from ..harness import safe_repr as _srepr  # noqa: E402
from .. import families, mergespec
from ..families import sort_keys
from ..harness import brief, eq
from ..minidb import PersistentReference, p64
from ..runner import rng_for

ID = 'C07'
LEVEL = 'exploration'
RULE = ('evaluations = (old, committed, new) state triples handed to '
        'cls()._p_resolveConflict of Bucket, Set and (embedded-state) BTree, '
        'TreeSet in the C and the Python implementation; each outcome is '
        'compared with the independent specification vmon/mergespec.py '
        '(refuse iff links differ / multi-leaf tree state / a side emptied / '
        'change sets overlap / a side lost the then-smallest key / empty '
        'result; else old with both change sets applied) and C is compared '
        'with Python including the reason code; distinct_nontrivial = '
        'distinct (kind, decision, reason code or merge pattern '
        '[#inserts,#deletes,#value changes per side], link pattern) tuples')
ASSUMPTIONS = ['vmon/mergespec.py is the statement of a correct three-way '
               'merge', 'triples are sampled over a universe of <= 7 keys and '
               '3 values, plus boundary triples']

REASONS = [0, 1, 2, 3, 4, 5, 6, 7, 8, 9, 11, 12, 13]


def must_see(tier):
    m = {}
    for impl in ('c', 'py'):
        for r in REASONS:
            m['%s:reason:%d' % (impl, r)] = 1
        m[impl + ':merged'] = 100
        m[impl + ':subclass-instance'] = 100
    m['merge:ins+ins'] = 1
    m['merge:ins+del'] = 1
    m['merge:del+chg'] = 1
    m['malformed-both-raise'] = 10
    m['ref-values'] = 500
    m['ref-values:ok'] = 50
    m['ref-values:ValueError'] = 50
    m['ref-values:BTreesConflictError'] = 50
    return m


QUICK_FAMS = ['OO', 'II', 'QF', 'fs', 'OI', 'LO']


def plan(tier, seed):
    q = tier == 'quick'
    fams = list(families.FAMILY_NAMES)
    specs = []
    for fam in fams:
        specs.append(dict(label=fam, family=fam, triples=24000 if q else 800000,
                          seed=seed, tier=tier, variant='mon',
                          timeout=900 if q else 7200))
    if not q:
        for fam in ['OO', 'II', 'fs']:
            specs.append(dict(label=fam + '-asan', family=fam, triples=60000,
                              seed=seed + 5, tier=tier, variant='asan',
                              timeout=7200))
    return specs


def gen_triple(fam, is_mapping, rng, keys, vals):
    def rand_state(p):
        d = {}
        for k in keys:
            if rng.random() < p:
                d[k] = rng.choice(vals) if is_mapping else None
        return d

    def edit(base, n):
        d = dict(base)
        for _ in range(n):
            r = rng.random()
            k = rng.choice(keys)
            if r < 0.4:
                d[k] = rng.choice(vals) if is_mapping else None
            elif r < 0.8:
                if d:
                    if rng.random() < .5:
                        k = rng.choice(list(d))
                    d.pop(k, None)
            elif is_mapping and d:
                k = rng.choice(list(d))
                d[k] = rng.choice(vals)
        return d
    r = rng.random()
    if r < 0.65:
        old = rand_state(rng.choice([0.3, 0.6, 0.9]))
        com = edit(old, rng.randint(0, 3))
        new = edit(old, rng.randint(0, 3))
    elif r < 0.75:
        old = {}
        com = rand_state(0.3)
        new = rand_state(0.3)
    else:
        old, com, new = rand_state(.5), rand_state(.5), rand_state(.5)
    return old, com, new


def to_state(d, is_mapping, link, kind, form):
    """Build the __getstate__-shaped argument."""
    if form == 'none':
        return None
    ks = sort_keys(list(d))
    if is_mapping:
        flat = []
        for k in ks:
            flat += [k, d[k]]
        flat = tuple(flat)
    else:
        flat = tuple(ks)
    bstate = (flat,) if link is None else (flat, link)
    if kind in ('BTree', 'TreeSet'):
        if form == 'multi':
            return (('childA', ks[0] if ks else 0, 'childB'), 'first')
        return ((bstate,),)
    return bstate


def from_state(st, is_mapping, kind):
    if kind in ('BTree', 'TreeSet'):
        st = st[0][0]
    flat = st[0]
    link = st[1] if len(st) > 1 else None
    if is_mapping:
        return list(zip(flat[0::2], flat[1::2])), link
    return list(flat), link


def pattern(old, com, new):
    def p(side):
        ins = sum(1 for k in side if k not in old)
        dl = sum(1 for k in old if k not in side)
        ch = sum(1 for k in side if k in old and not eq(old[k], side[k]))
        return (min(ins, 2), min(dl, 2), min(ch, 2))
    return p(com), p(new)


MALFORMED = [
    lambda st: 5, lambda st: 'abc', lambda st: (), lambda st: (1, 2, 3),
    lambda st: [st], lambda st: ((1,),) if True else None,
    lambda st: (st[0] + (st[0][0],),) if st and st[0] else (('x',),),
    lambda st: ((),) * 3, lambda st: (None,), lambda st: ('ab',),
    lambda st: ({},), lambda st: (((),),) * 2,
]


_SUBS = {}
REFS = [PersistentReference(p64(21 + j), ('m', 'n')) for j in range(3)]


def _ident_eq(x, y):
    if isinstance(x, tuple) and isinstance(y, tuple):
        return len(x) == len(y) and all(_ident_eq(p, q) for p, q in zip(x, y))
    if isinstance(x, PersistentReference) or isinstance(
            y, PersistentReference):
        return x is y
    return eq(x, y)


def _subclass(cls):
    sub = _SUBS.get(cls)
    if sub is None:
        sub = _SUBS[cls] = type(cls)(cls.__name__ + 'Sub', (cls,), {})
    return sub


def run_shard(spec, rec):
    fam = families.get(spec['family'])
    rng = rng_for(spec['seed'], ID, spec['family'])
    n = spec['triples']
    stubA = PersistentReference(p64(11), ('m', 'n'))
    stubB = PersistentReference(p64(12), ('m', 'n'))
    for kind in families.KINDS:
        is_mapping = kind in families.MAPPING_KINDS
        is_tree = kind in families.TREE_KINDS
        uni = fam.key_universe(rng, n=6)
        if fam.kc == 'O' and None not in uni:
            uni.append(None)
        keys = sort_keys(rng.sample(uni, min(len(uni), rng.choice([4, 6, 7]))))
        vals = fam.values(rng)
        if fam.vc == 'F':
            vals = [v for v in vals if families.f32(v) == v]
        vals = rng.sample(vals, min(3, len(vals)))
        if fam.vc == 'O' and rng.random() < .5:
            vals = vals[:2] + [{'a': 1}]
        for i in range(n // 4):
            if i % 400 == 0:
                keys = sort_keys(rng.sample(uni, min(len(uni),
                                                     rng.choice([3, 5, 7]))))
            refmode = is_mapping and fam.vc == 'O' and i % 7 == 3
            old, com, new = gen_triple(fam, is_mapping, rng, keys,
                                       REFS if refmode else vals)
            links = (None, None, None)
            forms = ['state', 'state', 'state']
            r = rng.random()
            if not is_tree:
                if r < 0.15:
                    links = (stubA, stubA, stubA)
                elif r < 0.22:
                    links = tuple(rng.choice([None, stubA, stubB])
                                  for _ in range(3))
            elif r < 0.06:
                forms[rng.randrange(3)] = 'multi'
            for j in range(3):
                d = (old, com, new)[j]
                if not d and rng.random() < .5 and (links[j] is None):
                    forms[j] = 'none'
            states = [to_state(d, is_mapping, l, kind, f)
                      for d, l, f in zip((old, com, new), links, forms)]
            malformed = rng.random() < 0.01
            if malformed:
                j = rng.randrange(3)
                try:
                    states[j] = rng.choice(MALFORMED)(states[j])
                except Exception:
                    states[j] = 7
            outs = {}
            use_sub = i % 5 == 4
            for impl in ('c', 'py'):
                cls = fam.cls(kind, impl)
                if use_sub:
                    # applications subclass the container classes; the
                    # resolver of an instance of a subclass must behave as
                    # its base class does
                    cls = _subclass(cls)
                    rec.ev(impl + ':subclass-instance')
                rec.journal(_srepr((fam.name, kind, impl, states)))
                try:
                    outs[impl] = ('ok', cls()._p_resolveConflict(*states))
                except Exception as e:
                    outs[impl] = ('exc', type(e).__name__,
                                  getattr(e, 'reason', None))
            rec.evaluations += 1
            if malformed:
                # both must raise or both return; never crash
                a, b = outs['c'], outs['py']
                if a[0] == 'exc' and b[0] == 'exc':
                    rec.ev('malformed-both-raise')
                elif a[0] != b[0]:
                    # one side tolerated a shape the other rejected
                    rec.ev('malformed-tolerance-differs')
                continue
            if refmode:
                # values that are persistent objects reach the resolver as
                # reference stand-ins: equal to themselves, and comparing two
                # DIFFERENT ones raises ValueError (ZODB's contract).  Both
                # implementations must take the same way out - the same
                # merged state, the same refusal, or the comparison's error -
                # and never anything like SystemError
                a, b = outs['c'], outs['py']
                rec.ev('ref-values')
                rec.ev('ref-values:' + (a[1] if a[0] == 'exc' else 'ok'))
                rec.seen(kind, 'ref-values', a[0], a[1] if a[0] == 'exc'
                         else None)
                same = a[0] == b[0] and (
                    a[1:] == b[1:] if a[0] == 'exc' else _ident_eq(a[1], b[1]))
                weird = [o for o in (a, b) if o[0] == 'exc' and o[1] not in (
                    'BTreesConflictError', 'ValueError')]
                if not same or weird:
                    rec.violation('c-and-python-decide-differently'
                                  if not weird else
                                  'resolver-raised-unexpected-error',
                                  family=fam.name, kind=kind, impl='c-vs-py',
                                  states=brief(states, 500), c=brief(a, 300),
                                  py=brief(b, 300), ref_values=True)
                continue
            multi = 'multi' in forms
            want = mergespec.decide(old, com, new, links, multi)
            for impl in ('c', 'py'):
                o = outs[impl]
                bad = None
                if want[0] == 'refuse':
                    if o[0] != 'exc' or o[1] != 'BTreesConflictError':
                        bad = 'merged-or-raised-other-where-refusal-required'
                    elif o[2] not in want[1]:
                        bad = 'refused-with-unexpected-reason'
                    else:
                        rec.ev('%s:reason:%s' % (impl, o[2]))
                        rec.seen(kind, 'refuse', o[2],
                                 tuple(l is not None for l in links))
                else:
                    if o[0] != 'ok':
                        bad = 'refused-a-mergeable-triple'
                    else:
                        try:
                            items, link = from_state(o[1], is_mapping, kind)
                        except Exception:
                            items, link = None, None
                        exp_keys = sort_keys(list(want[1]))
                        exp = [(k, want[1][k]) for k in exp_keys] \
                            if is_mapping else exp_keys
                        if items is None or not eq(items, exp):
                            bad = 'wrong-merge-result'
                        elif link is not links[0]:
                            bad = 'successor-link-not-preserved'
                        else:
                            rec.ev(impl + ':merged')
                            pc, pn = pattern(old, com, new)
                            rec.seen(kind, 'merge', pc, pn)
                            if pc[0] and pn[0]:
                                rec.ev('merge:ins+ins')
                            if (pc[0] and pn[1]) or (pc[1] and pn[0]):
                                rec.ev('merge:ins+del')
                            if (pc[1] and pn[2]) or (pc[2] and pn[1]):
                                rec.ev('merge:del+chg')
                if bad:
                    d = dict(family=fam.name, kind=kind, impl=impl,
                             states=brief(states, 500), observed=brief(o, 300),
                             expected=brief(want, 300))
                    # F06: C compares object values with '<': equal but
                    # unorderable values (dicts) look changed by both
                    if (impl == 'c' and fam.vc == 'O' and is_mapping and
                            bad == 'refused-a-mergeable-triple' and
                            o[1] in ('BTreesConflictError', 'TypeError') and
                            any(isinstance(v, dict) for dd in (old, com, new)
                                for v in dd.values())):
                        d['finding'] = 'F06'
                    rec.violation(bad, **d)
            a, b = outs['c'], outs['py']
            if a[0] != b[0] or (a[0] == 'exc' and a[1:] != b[1:]) or (
                    a[0] == 'ok' and not eq(a[1], b[1])):
                d = dict(family=fam.name, kind=kind, impl='c-vs-py',
                         states=brief(states, 500), c=brief(a, 300),
                         py=brief(b, 300))
                if (fam.vc == 'O' and is_mapping and any(
                        isinstance(v, dict) for dd in (old, com, new)
                        for v in dd.values())):
                    d['finding'] = 'F06'
                rec.violation('c-and-python-decide-differently', **d)
            if i == 3:
                rec.sample(dict(family=fam.name, kind=kind,
                                states=brief(states, 300),
                                c=brief(outs['c'], 200),
                                spec=brief(want, 200)))
