"""C06 - serialized state round-trips, identically in C and Python."""
import copy
import io
import pickle

from .. import corpus, families, gen, harness, hist, minidb, walker
from ..families import f32
from ..harness import brief, eq
from ..runner import rng_for

ID = 'C06'
LEVEL = 'exploration'
RULE = ('evaluations = round trips performed (getstate/setstate, pickle '
        'protocols 0-5, copy, deepcopy, C pickle loaded as Python classes '
        'and Python pickle loaded as C classes, byte comparison of the C and '
        'Python pickles of the same history) on containers reached by '
        'generated histories; every clone must have equal ordered contents, '
        'pass _check/check/walker and follow the reference model through 20 '
        'further calls; distinct_nontrivial = distinct (impl, kind, state '
        'form [none/embedded/external], shape class, round-trip kind) tuples')
ASSUMPTIONS = ['sampled histories', 'values of float families are chosen '
               'exactly representable in single precision (the rounding '
               'difference is finding F08, judged by C13/C09)']


def must_see(tier):
    m = {}
    for impl in ('c', 'py'):
        for form in ('none', 'embedded', 'external'):
            m['%s:form:%s' % (impl, form)] = 5
        m[impl + ':embedded->external->one-leaf'] = 1
        m[impl + ':subclass-round-trip'] = 200
        m[impl + ':setstate-on-live'] = 200
        m[impl + ':setstate-empty-on-live'] = 5
        m[impl + ':setstate-on-chained-leaf'] = 20
        m[impl + ':ctor-copy-independent'] = 100
        m[impl + ':explore:state-round-tripped'] = 1000
    m['c-written-keys-cross-load'] = 20
    for p in range(6):
        m['protocol:%d' % p] = 50
    m['cross:c->py'] = 50
    m['cross:py->c'] = 50
    m['pickles-identical'] = 200
    m['db-commits-compared'] = 100
    m['db-cross-read:c->py'] = 50
    m['db-cross-read:py->c'] = 50
    return m


def plan(tier, seed):
    q = tier == 'quick'
    specs = []
    for fam in families.FAMILY_NAMES:
        specs.append(dict(label=fam, family=fam, containers=16 if q else 800,
                          seed=seed, tier=tier, variant='mon',
                          timeout=900 if q else 7200))
    if not q:
        for fam in ['OO', 'II', 'fs', 'LF', 'QO']:
            specs.append(dict(label=fam + '-asan', family=fam, containers=120,
                              seed=seed + 3, tier=tier, variant='asan',
                              timeout=7200))
    # every reachable state of a small universe through the round trips
    # (vmon/explore.py)
    from .. import explore
    specs += explore.specs_for(ID, tier, seed, ['OO', 'II'],
                               ['OO', 'II', 'fs', 'LF'])
    return specs


class PyUnpickler(pickle.Unpickler):
    """Loads a pickle resolving BTrees class names to the Python classes."""

    def find_class(self, module, name):
        c = super().find_class(module, name)
        if module.startswith('BTrees.') and not name.endswith('Py'):
            import importlib
            m = importlib.import_module(module)
            return getattr(m, name + 'Py', c)
        return c


def loads_as_py(data):
    return PyUnpickler(io.BytesIO(data)).load()


def dumps_nomemo(obj, proto):
    f = io.BytesIO()
    p = pickle.Pickler(f, proto)
    p.fast = True
    p.dump(obj)
    return f.getvalue()


def differ_only_in_zero_sign(a, b):
    """Do two pickles consist of the same opcode stream except that some
    float arguments are 0.0 in one and -0.0 in the other?  (finding F35)"""
    import math
    import pickletools
    try:
        oa = [(o.name, arg) for o, arg, _ in pickletools.genops(a)]
        ob = [(o.name, arg) for o, arg, _ in pickletools.genops(b)]
    except Exception:
        return False
    if len(oa) != len(ob):
        return False
    seen = False
    for (na, xa), (nb, xb) in zip(oa, ob):
        if na != nb:
            return False
        if isinstance(xa, float) and isinstance(xb, float) and \
                xa == 0.0 and xb == 0.0:
            if math.copysign(1, xa) != math.copysign(1, xb):
                seen = True
            continue
        if isinstance(xa, float) and isinstance(xb, float) and \
                xa != xa and xb != xb:
            continue
        if xa != xb:
            return False
    return seen


def state_form(t, is_tree):
    st = t.__getstate__()
    if is_tree:
        if st is None:
            return 'none'
        return 'embedded' if len(st) == 1 else 'external'
    return 'none' if not st[0] else 'external'


def run_shard(spec, rec):
    if spec.get('explore'):
        from .. import explore
        return explore.run_shard(ID, spec, rec)
    fam = families.get(spec['family'])
    for ci in range(spec['containers']):
        for kind in families.KINDS:
            rng = rng_for(spec['seed'], ID, spec['label'], kind, ci)
            run_case(fam, kind, rng, rec, ci)
            if ci % 2 == 0:
                run_db_case(fam, kind, rng, rec, ci)


def same_history_pair(fam, kind, rng, sizes, ci):
    """Run one generated history on the C and on the Python class."""
    vals = [v for v in fam.values(rng)
            if not isinstance(v, float) or f32(v) == v]
    steps = 0 if ci % 9 == 0 else rng.randint(1, 70)
    lsc = corpus.grow_container(fam, kind, 'c', rng, sizes=sizes,
                                steps=steps, values=vals, thin=(ci % 2 == 0),
                                # C rebuilds the set for &=, Python discards
                                # in place: different shapes (finding F28,
                                # judged by C09)
                                exclude=('iand',))
    # legal but unusual data: int subclasses (bool) as integer keys / values
    if ci % 3 == 2 and kind in ('BTree', 'Bucket', 'Set', 'TreeSet'):
        extra = []
        if fam.kc in 'IULQ':
            extra.append(('add', (True,)) if kind in ('Set', 'TreeSet')
                         else ('setitem', (True, lsc.g._val())))
        if fam.vc in 'IULQ' and kind in ('BTree', 'Bucket'):
            extra.append(('setitem', (rng.choice(lsc.g.universe), True)))
            extra.append(('setdefault', (rng.choice(lsc.g.universe), False)))
        if fam.vc == 'F' and kind in ('BTree', 'Bucket'):
            extra.append(('setitem', (rng.choice(lsc.g.universe), True)))
            extra.append(('setitem', (rng.choice(lsc.g.universe), 3)))
        for op, args in extra:
            lsc.step(op, args)
    # replay the literal history on the Python class
    cls = fam.cls(kind, 'py')
    if sizes and kind in families.TREE_KINDS:
        harness.set_node_sizes(cls, *sizes)
    p = cls()
    went_external = False
    for op, args in lsc.log:
        a = tuple(gen.materialize(x, fam, 'py', p, False) for x in args)
        harness.call(p, op, a)
    return lsc, p


def canon_graph(storage, root_oid):
    """[(class name, state with references renamed)] in discovery order."""
    names = {root_oid: 0}
    order = [root_oid]
    out = []
    i = 0
    while i < len(order):
        oid = order[i]
        i += 1
        tid, clsname, data = storage.current(oid)
        up = pickle.Unpickler(io.BytesIO(data))

        def pl(ref):
            o = ref[0]
            if o not in names:
                names[o] = len(names)
                order.append(o)
            return ('REF', names[o], tuple(ref[1]))
        up.persistent_load = pl
        out.append((tuple(clsname), up.load()))
    return out


def run_db_case(fam, kind, rng, rec, ci):
    """The same history, committed at the same points, through MiniDB with
    the C and with the Python classes: the stored records (class name and
    state bytes per oid) must be identical, and each implementation must be
    able to read the other's database."""
    is_tree = kind in families.TREE_KINDS
    is_mapping = kind in families.MAPPING_KINDS
    sizes = gen.NODE_SIZES[ci % len(gen.NODE_SIZES)] if is_tree else None
    vals = [v for v in fam.values(rng)
            if not isinstance(v, float) or f32(v) == v]
    sto = {}
    conn = {}
    obj = {}
    for impl in ('c', 'py'):
        sto[impl] = minidb.Storage()
        conn[impl] = minidb.Connection(sto[impl], impl)
        conn[impl].log_events = False
        obj[impl] = hist.make_container(fam, kind, impl, sizes)
        conn[impl].add(obj[impl])
        conn[impl].commit()
    g = gen.HistoryGen(fam, kind, rng, values=vals, adversarial=0.4,
                       read_ops=False)
    g.exclude = ('iand',)
    if sizes:
        g.max_leaf = sizes[0]
    log = []
    desc = dict(family=fam.name, kind=kind, sizes=sizes, impl='c-vs-py')
    n = rng.randint(20, 90)
    f22 = False
    f34 = False
    f35 = False
    for step in range(n):
        present = list(obj['c'].keys())
        w = walker.walk(obj['c'], is_mapping) if is_tree else None
        op, args = g.next_op(w, present)
        log.append((op, args))
        if fam.vc == 'F' and is_mapping and op in ('setitem', 'update'):
            # F35 (recorded): in the float-valued families C skips a store
            # of a value EQUAL to the stored one (no change flag), Python
            # performs and announces it - from then on the two sides write
            # different sets of records
            try:
                cur = obj['c']
                if op == 'setitem':
                    pairs_ = [tuple(args[:2])]
                else:
                    m_ = gen.materialize(args[0], fam, 'c', cur, False)
                    pairs_ = list(m_.items()) if hasattr(m_, 'items') \
                        else list(m_)
                for k_, v_ in pairs_:
                    if k_ in cur and cur[k_] == f32(float(v_)):
                        f35 = True
            except Exception:
                pass
        for impl in ('c', 'py'):
            a = tuple(gen.materialize(x, fam, impl, obj[impl], False)
                      for x in args)
            harness.call(obj[impl], op, a)
        if rng.random() < 0.3 or step == n - 1:
            if is_tree:
                wc = walker.walk(obj['c'], is_mapping)
                if wc.inline_nonroot:
                    f22 = True
            try:
                for impl in ('c', 'py'):
                    conn[impl].commit()
            except Exception as e:
                rec.violation('commit-raised', detail='%s: %s' % (
                    type(e).__name__, e), **desc)
                return
            if is_tree and minidb.embedded_but_leaf_has_oid(
                    conn['c'], obj['c']):
                f34 = True
                rec.ev('f34-condition')
            rec.evaluations += 1
            rec.ev('db-commits-compared')
            # oids are handed out in the order objects are discovered while
            # pickling, which may differ; the record GRAPH must be the same:
            # same class and same state for every object reachable from the
            # root, with references renamed in order of first appearance
            gc_ = canon_graph(sto['c'], obj['c']._p_oid)
            gp_ = canon_graph(sto['py'], obj['py']._p_oid)
            diff = None
            if len(gc_) != len(gp_):
                diff = 'different numbers of stored objects: %d vs %d' % (
                    len(gc_), len(gp_))
            else:
                for i_, (a_, b_) in enumerate(zip(gc_, gp_)):
                    if a_[0] != b_[0] or not eq(a_[1], b_[1]):
                        diff = 'record #%d differs: %r vs %r' % (i_, a_, b_)
                        break
            if diff:
                d = dict(desc, detail=diff[:600],
                         history=[brief(x, 90) for x in log[-40:]])
                if f35:
                    d['finding'] = 'F35'
                rec.violation('c-and-python-records-differ', **d)
                return
            # each implementation reads the other's database
            want = harness.contents(obj['c'], is_mapping)
            for wimpl, rimpl in (('c', 'py'), ('py', 'c')):
                rc = minidb.Connection(sto[wimpl], rimpl)
                rc.log_events = False
                r = rc.get(obj[wimpl]._p_oid)
                errs = []
                try:
                    got = harness.contents(r, is_mapping)
                    if not eq(got, want):
                        errs.append(('contents', brief(got, 200)))
                    if is_tree:
                        e2, _ = hist.structural_checks(r, is_mapping)
                        errs += e2
                except Exception as e:
                    errs.append(('raised', '%s: %s' % (type(e).__name__, e)))
                rec.ev('db-cross-read:%s->%s' % (wimpl, rimpl))
                if errs:
                    d = dict(desc, writer=wimpl, reader=rimpl, errors=errs[:3],
                             history=[brief(x, 90) for x in log[-40:]])
                    if f22:
                        d['finding'] = 'F22'
                    elif f34:
                        d['finding'] = 'F34'
                    rec.violation('database-not-readable-by-other-impl', **d)
                    return
            if f22:
                return


class GtKey:
    """Totally ordered through __gt__ / __eq__ only (no __lt__): the C
    implementation accepts such keys (it asks whether the type has rich
    comparison at all), the Python key check refuses them at the API - but
    databases written by C hold them, and Python must be able to LOAD what
    C wrote."""
    __slots__ = ('n',)

    def __init__(self, n):
        self.n = n

    def __reduce__(self):
        return (GtKey, (self.n,))

    def __repr__(self):
        return 'GtKey(%r)' % (self.n,)

    def __hash__(self):
        return hash(self.n)

    def __eq__(self, o):
        return isinstance(o, GtKey) and self.n == o.n

    def __gt__(self, o):
        return self.n > o.n


def run_c_written_keys(fam, kind, rng, rec):
    """A container written by the C implementation with keys only C's API
    accepts: the pure-Python classes must load its pickle (every protocol)
    and write the same bytes back."""
    is_mapping = kind in families.MAPPING_KINDS
    cls = fam.cls(kind, 'c')
    c = cls()
    # (stock classes, default node sizes: 70 keys make a multi-leaf tree)
    n = rng.choice([1, 2, 7]) if kind not in families.TREE_KINDS else \
        rng.choice([1, 35, 70])
    try:
        for i in rng.sample(range(-5, 120), n):
            if is_mapping:
                c[GtKey(i)] = i
            else:
                c.add(GtKey(i))
    except TypeError:
        rec.ev('gtkey-refused-by-c')
        return
    want = harness.contents(c, is_mapping)
    desc = dict(family=fam.name, kind=kind, impl='c->py', keys='GtKey',
                n=n)
    for proto in (0, 2, 3, 5):
        dc = pickle.dumps(c, proto)
        rec.evaluations += 1
        rec.ev('c-written-keys-cross-load')
        try:
            p2 = loads_as_py(dc)
            got = harness.contents(p2, is_mapping)
            back = pickle.dumps(p2, proto)
        except Exception as e:
            rec.violation('python-cannot-load-what-c-wrote', proto=proto,
                          detail='%s: %s' % (type(e).__name__, e), **desc)
            return
        if not eq(got, want) or back != dc:
            rec.violation('python-reads-c-pickle-differently', proto=proto,
                          same_contents=eq(got, want),
                          same_bytes=back == dc, **desc)
            return


_SUBS = {}


def sub_classes(fam, kind, impl):
    """An application's subclasses: a tree class that names its own leaf
    class through the documented _bucket_type attribute (module-level names,
    so that they pickle)."""
    key = (fam.name, kind, impl)
    if key not in _SUBS:
        base = fam.cls(kind, impl)
        leafbase = fam.cls('Bucket' if kind == 'BTree' else 'Set', impl)
        nm = 'Sub%s%s%s' % (fam.name, kind, impl.upper())
        B = type(leafbase)(nm + 'Leaf', (leafbase,), {})
        T = type(base)(nm, (base,), {'_bucket_type': B})
        for k_ in (B, T):
            k_.__module__ = __name__
            k_.__qualname__ = k_.__name__
            globals()[k_.__name__] = k_
        _SUBS[key] = (T, B)
    return _SUBS[key]


def run_subclass_case(fam, kind, rng, rec, ci):
    """Round trips of a tree SUBCLASS with its own leaf subclass."""
    is_mapping = kind == 'BTree'
    vals = [v for v in fam.values(rng)
            if not isinstance(v, float) or f32(v) == v]
    for impl in ('c', 'py'):
        T, B = sub_classes(fam, kind, impl)
        T.max_leaf_size, T.max_internal_size = gen.NODE_SIZES[
            rng.randrange(len(gen.NODE_SIZES))]
        uni = [k for k in fam.key_universe(rng, n=rng.choice([3, 12, 30]))]
        t = T()
        for k in uni:
            if is_mapping:
                t[k] = rng.choice(vals)
            else:
                t.add(k)
        for k in rng.sample(uni, len(uni) // 3):
            if is_mapping:
                del t[k]
            else:
                t.remove(k)
        want = harness.contents(t, is_mapping)
        w = walker.walk(t, is_mapping, check_sizes=False)
        if w.errors or w.inline_nonroot:
            continue
        desc = dict(family=fam.name, kind=kind, impl=impl, subclass=True,
                    sizes=(T.max_leaf_size, T.max_internal_size),
                    leaves=brief(w.leaf_keys, 300))
        clones = []
        try:
            st = pickle.loads(pickle.dumps(t, 3)).__getstate__()
            f = T()
            if st is not None:
                f.__setstate__(st)
            clones.append(('setstate', f))
            for proto in range(6):
                clones.append(('pickle:%d' % proto,
                               pickle.loads(pickle.dumps(t, proto))))
            clones.append(('deepcopy', copy.deepcopy(t)))
        except Exception as e:
            rec.violation('subclass-round-trip-raised', detail='%s: %s' % (
                type(e).__name__, e), done=[h for h, _ in clones], **desc)
            continue
        for how, cl in clones:
            rec.evaluations += 1
            rec.ev(impl + ':subclass-round-trip')
            rec.seen(impl, kind, 'subclass', how.split(':')[0],
                     min(len(w.leaf_keys), 3))
            errs, wc = hist.structural_checks(cl, is_mapping)
            leaf_t = type(cl._firstbucket) if len(w.leaf_keys) > 1 else B
            if type(cl) is not T or leaf_t is not B or errs or \
                    not eq(harness.contents(cl, is_mapping), want):
                rec.violation('subclass-clone-wrong', how=how,
                              clone_type=type(cl).__name__,
                              leaf_type=leaf_t.__name__, errors=errs[:2],
                              **desc)
                break


def run_live_setstate(fam, kind, impl, src, want, rng, rec, desc, uni):
    """__setstate__ onto an object that is ALIVE and holds other data (what
    a data manager does when it re-activates a ghost whose slots were not
    cleared, and what applications do to reset a container): afterwards
    the object must hold exactly the new state."""
    is_tree = kind in families.TREE_KINDS
    is_mapping = kind in families.MAPPING_KINDS
    cls = fam.cls(kind, impl)
    live = cls()
    old_keys = rng.sample(uni, min(len(uni), rng.choice([2, 9, 25])))
    vals = fam.values(rng)
    holder = None
    if not is_tree and len(old_keys) >= 4 and rng.random() < .5:
        # a leaf that sits in the MIDDLE of a chain (it has a successor):
        # the first leaf of a small tree
        # (a subclass: node sizes set on the stock class are process-global)
        tcls = harness.subclass_with_sizes(
            fam.cls('BTree' if is_mapping else 'TreeSet', impl), 2, 2)
        holder = tcls()
        try:
            for k in old_keys:
                if is_mapping:
                    holder[k] = vals[0]
                else:
                    holder.add(k)
            cand = holder._firstbucket
            if cand is not None and type(cand) is cls and \
                    cand.__getstate__()[1:]:
                live = cand
                old_keys = list(live.keys())
                rec.ev(impl + ':setstate-on-chained-leaf')
            else:
                holder = None
        except Exception:
            holder = None
    if holder is None:
        for k in old_keys:
            if is_mapping:
                live[k] = vals[0]
            else:
                live.add(k)
    def fresh_state():
        d_ = pickle.dumps(src, 3)
        return (pickle.loads(d_) if impl == 'c' else
                loads_as_py(d_)).__getstate__()
    try:
        st = fresh_state()
        live.__setstate__(st)
    except Exception as e:
        rec.violation('setstate-on-live-object-raised', detail='%s: %s' % (
            type(e).__name__, e), **dict(desc, impl=impl))
        return
    rec.evaluations += 1
    rec.ev(impl + ':setstate-on-live')
    if not want:
        rec.ev(impl + ':setstate-empty-on-live')
    errs = []
    try:
        got = harness.contents(live, is_mapping)
        if not eq(got, want):
            errs.append(('contents', brief(got, 200)))
        if len(live) != len(want) or bool(live) != bool(want):
            errs.append(('len/bool', (len(live), bool(live))))
        wk = set(k for k, _ in want) if is_mapping else set(want)
        ghosts = [k for k in old_keys if k not in wk and (
            k in live or live.has_key(k))]
        if ghosts:
            errs.append(('former keys still found', brief(ghosts, 100)))
        if is_tree:
            e2, _ = hist.structural_checks(live, is_mapping)
            errs += e2
        st2 = live.__getstate__()
        st0 = fresh_state()
        if pickle.dumps(st2, 3) != pickle.dumps(st0, 3) and \
                pickle.dumps(live, 3) != pickle.dumps(src, 3):
            errs.append(('state differs from the one set', ''))
    except Exception as e:
        errs.append(('raised', '%s: %s' % (type(e).__name__, e)))
    if errs:
        rec.violation('setstate-on-live-object-wrong', errors=errs[:4],
                      former_keys=brief(old_keys, 150),
                      **dict(desc, impl=impl))


def run_case(fam, kind, rng, rec, ci):
    is_tree = kind in families.TREE_KINDS
    if is_tree and ci % 4 == 1:
        run_subclass_case(fam, kind, rng, rec, ci)
    if fam.kc == 'O' and ci % 4 == 2:
        run_c_written_keys(fam, kind, rng, rec)
    is_mapping = kind in families.MAPPING_KINDS
    sizes = gen.NODE_SIZES[ci % len(gen.NODE_SIZES)] if is_tree else None
    if is_tree and ci % 8 == 7:
        sizes = None
    lsc, p = same_history_pair(fam, kind, rng, sizes, ci)
    c = lsc.c
    model = lsc.m
    want = model.contents()
    desc = dict(family=fam.name, kind=kind, sizes=sizes,
                history=[brief(x, 90) for x in lsc.log[-50:]],
                history_len=len(lsc.log))
    if not eq(harness.contents(p, is_mapping), want) or \
            not eq(harness.contents(c, is_mapping), want):
        return      # C01/C09's business
    # thin back to one external leaf now and then (embedded->external->one)
    objs = {'c': c, 'py': p}
    shape = {}
    f22 = {}
    for impl, o in objs.items():
        form = state_form(o, is_tree)
        rec.ev('%s:form:%s' % (impl, form))
        if is_tree:
            try:
                w = walker.walk(o, is_mapping)
            except Exception as e:
                # a state the independent walker cannot even read (a key
                # where a child should be, ...)
                rec.violation('state-not-walkable', impl=impl,
                              detail='%s: %s' % (type(e).__name__, e),
                              state=brief(o.__getstate__(), 300), **desc)
                return
            if w.errors:
                return
            shape[impl] = walker.shape_class(w)
            f22[impl] = w.inline_nonroot > 0
            if form == 'external' and len(w.leaf_keys) == 1:
                rec.ev(impl + ':embedded->external->one-leaf')
        else:
            shape[impl] = (form, min(len(want), 3))
            f22[impl] = False

    def fail(mech, impl, **kw):
        d = dict(desc, impl=impl)
        d.update(kw)
        if f22.get(impl if impl in f22 else 'c') and mech in (
                'clone-damaged', 'clone-contents-differ', 'clone-misbehaves'):
            d['finding'] = 'F22'
        rec.violation(mech, **d)

    def check_clone(clone, impl, how, deep=True):
        """contents, soundness, and 20 further calls in lock-step."""
        rec.evaluations += 1
        rec.seen(impl, kind, state_form(objs[impl], is_tree), shape[impl],
                 how.split(':')[0])
        exp_cls = fam.cls(kind, impl)
        if how in ('deepcopy', 'copy') and impl == 'py' and \
                type(clone) is fam.cls(kind, 'c'):
            # by design the Python classes reduce to their C counterparts
            exp_cls = fam.cls(kind, 'c')
            impl = 'c'
        if type(clone) is not exp_cls:
            fail('clone-of-wrong-class', impl, how=how,
                 observed=type(clone).__name__, expected=exp_cls.__name__)
            return False
        try:
            got = harness.contents(clone, is_mapping)
        except Exception as e:
            fail('clone-contents-differ', impl, how=how,
                 detail='%s: %s' % (type(e).__name__, e))
            return False
        if not eq(got, want):
            fail('clone-contents-differ', impl, how=how,
                 observed=brief(got, 300), expected=brief(want, 300))
            return False
        if is_tree:
            errs, _ = hist.structural_checks(clone, is_mapping)
            if errs:
                fail('clone-damaged', impl, how=how, errors=errs[:3])
                return False
        if deep:
            ls = hist.LockStep(fam, kind, impl, rng, rec, sizes=sizes,
                               container=clone, structure=True,
                               judge='contents', read_ops=False)
            ls.m = model.copy()
            ls.g.universe = lsc.g.universe
            ls.g.values = lsc.g.values
            n0 = len(rec.violations)
            ok = ls.run(20)
            if not ok or len(rec.violations) > n0:
                # re-label: the clone misbehaved after the round trip
                for v in rec.violations[n0:]:
                    v['mechanism'] = 'clone-misbehaves'
                    v['how'] = how
                    if f22.get(impl):
                        v['finding'] = 'F22'
                return False
        return True

    # ---- pickle, all protocols; C vs Python bytes ------------------------
    for proto in range(6):
        try:
            dc = pickle.dumps(c, proto)
            dp = pickle.dumps(p, proto)
        except Exception as e:
            fail('pickle-raised', 'c', proto=proto,
                 detail='%s: %s' % (type(e).__name__, e))
            return
        rec.ev('protocol:%d' % proto)
        rec.evaluations += 1
        if dc != dp:
            d = {}
            if dumps_nomemo(c, proto) == dumps_nomemo(p, proto):
                # identical except for pickle memoisation
                d['finding'] = 'F13'
            elif fam.vc == 'F' and differ_only_in_zero_sign(
                    dumps_nomemo(c, proto), dumps_nomemo(p, proto)):
                d['finding'] = 'F35'
            rec.violation('c-and-python-pickles-differ', impl='c-vs-py',
                          proto=proto, len_c=len(dc), len_py=len(dp),
                          memo_only='finding' in d, **dict(desc, **d))
            if not d:
                return
        else:
            rec.ev('pickles-identical')
        if proto in (0, 2, 3, 5) or ci % 3 == 0:
            deep = (proto == 3)
            try:
                c2 = pickle.loads(dc)        # C pickle -> C classes
                p2c = pickle.loads(dp)       # Python pickle -> C classes
                c2p = loads_as_py(dc)        # C pickle -> Python classes
                p2 = loads_as_py(dp)         # Python pickle -> Python classes
            except Exception as e:
                fail('unpickle-raised', 'c', proto=proto,
                     detail='%s: %s' % (type(e).__name__, e))
                return
            if not check_clone(c2, 'c', 'pickle:%d:c->c' % proto, deep):
                return
            rec.ev('cross:py->c')
            if not check_clone(p2c, 'c', 'pickle:%d:py->c' % proto, deep):
                return
            rec.ev('cross:c->py')
            if not check_clone(c2p, 'py', 'pickle:%d:c->py' % proto, deep):
                return
            if not check_clone(p2, 'py', 'pickle:%d:py->py' % proto, False):
                return
    # ---- copy / deepcopy ---------------------------------------------------
    for impl, o in objs.items():
        try:
            dcp = copy.deepcopy(o)
        except Exception as e:
            fail('deepcopy-raised', impl, detail='%s: %s' % (
                type(e).__name__, e))
            continue
        check_clone(dcp, impl, 'deepcopy')
        try:
            sc = copy.copy(o)
        except Exception as e:
            d = {}
            if impl == 'py' and is_tree:
                d['finding'] = 'F24'
            rec.violation('copy-raised', detail='%s: %s' % (
                type(e).__name__, e), **dict(desc, impl=impl, **d))
            continue
        check_clone(sc, impl, 'copy', deep=False)
    # ---- copy by constructor: T(t) -------------------------------------------
    # documented as "initialise from the items of another collection": a
    # container of its own with equal contents.  Built the same way by both
    # implementations (same pickle), and sharing nothing with its source:
    # what is done to the copy afterwards must not show in the original.
    ctor = {}
    for impl, o in objs.items():
        try:
            ctor[impl] = type(o)(o)
        except Exception as e:
            fail('constructor-copy-raised', impl, detail='%s: %s' % (
                type(e).__name__, e))
    if len(ctor) == 2:
        rec.ev('ctor-copy')
        try:
            same = pickle.dumps(ctor['c'], 3) == pickle.dumps(ctor['py'], 3)
            if not same:
                a_, b_ = dumps_nomemo(ctor['c'], 3), dumps_nomemo(ctor['py'], 3)
                tag = 'F13' if a_ == b_ else 'F35' if (
                    fam.vc == 'F' and differ_only_in_zero_sign(a_, b_)) \
                    else None
                rec.violation('c-and-python-pickles-differ', impl='c-vs-py',
                              proto=3, how='T(t)', memo_only=bool(tag),
                              **dict(desc, **({'finding': tag} if tag
                                              else {})))
        except Exception as e:
            fail('pickle-raised', 'c', how='T(t)', detail='%s: %s' % (
                type(e).__name__, e))
        for impl, o in objs.items():
            if not check_clone(ctor[impl], impl, 'ctor-copy', deep=True):
                continue
            # the 20 calls just made on the copy must not have touched the
            # source
            try:
                got = harness.contents(o, is_mapping)
                errs = hist.structural_checks(o, is_mapping)[0] \
                    if is_tree else []
            except Exception as e:
                got, errs = None, [('raised', '%s: %s' % (
                    type(e).__name__, e))]
            if errs or not eq(got, want):
                fail('source-changed-through-its-copy', impl,
                     observed=brief(got, 300), expected=brief(want, 300),
                     errors=errs[:3])
                return
            rec.ev(impl + ':ctor-copy-independent')
    # ---- __setstate__ onto a live, populated object ------------------------
    for impl, o in objs.items():
        if not f22.get(impl):
            run_live_setstate(fam, kind, impl, o, want, rng, rec, desc,
                              lsc.g.universe)
    # ---- __getstate__ -> fresh __setstate__ (last: shares the children) ---
    for impl, o in objs.items():
        st = o.__getstate__()
        cls = fam.cls(kind, impl)
        fresh = cls()
        try:
            if st is not None:
                fresh.__setstate__(st)
        except Exception as e:
            fail('setstate-raised', impl, detail='%s: %s' % (
                type(e).__name__, e))
            continue
        if fresh.__getstate__() != st and not eq(
                harness.contents(fresh, is_mapping), want):
            fail('clone-contents-differ', impl, how='setstate')
            continue
        check_clone(fresh, impl, 'setstate', deep=(impl == 'c'))
    if ci == 1 and kind == 'BTree':
        rec.sample(dict(family=fam.name, kind=kind, sizes=sizes,
                        contents=brief(want, 200),
                        pickle_len=len(pickle.dumps(c, 3))))
