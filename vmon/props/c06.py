"""C06 - serialized state round-trips, identically in C and Python."""
import copy
import io
import pickle

from .. import corpus, families, gen, harness, hist, minidb, walker
from ..families import f32
from ..harness import brief, eq
from ..runner import rng_for

ID = 'C06'
LEVEL = 'exploration'
RULE = ('evaluations = round trips performed (getstate/setstate, pickle '
        'protocols 0-5, copy, deepcopy, C pickle loaded as Python classes '
        'and Python pickle loaded as C classes, byte comparison of the C and '
        'Python pickles of the same history) on containers reached by '
        'generated histories; every clone must have equal ordered contents, '
        'pass _check/check/walker and follow the reference model through 20 '
        'further calls; distinct_nontrivial = distinct (impl, kind, state '
        'form [none/embedded/external], shape class, round-trip kind) tuples')
ASSUMPTIONS = ['sampled histories', 'values of float families are chosen '
               'exactly representable in single precision (the rounding '
               'difference is finding F08, judged by C13/C09)']


def must_see(tier):
    m = {}
    for impl in ('c', 'py'):
        for form in ('none', 'embedded', 'external'):
            m['%s:form:%s' % (impl, form)] = 5
        m[impl + ':embedded->external->one-leaf'] = 1
    for p in range(6):
        m['protocol:%d' % p] = 50
    m['cross:c->py'] = 50
    m['cross:py->c'] = 50
    m['pickles-identical'] = 200
    return m


def plan(tier, seed):
    q = tier == 'quick'
    specs = []
    for fam in families.FAMILY_NAMES:
        specs.append(dict(label=fam, family=fam, containers=8 if q else 80,
                          seed=seed, tier=tier, variant='mon',
                          timeout=900 if q else 3000))
    if not q:
        for fam in ['OO', 'II', 'fs', 'LF', 'QO']:
            specs.append(dict(label=fam + '-asan', family=fam, containers=30,
                              seed=seed + 3, tier=tier, variant='asan',
                              timeout=3000))
    return specs


class PyUnpickler(pickle.Unpickler):
    """Loads a pickle resolving BTrees class names to the Python classes."""

    def find_class(self, module, name):
        c = super().find_class(module, name)
        if module.startswith('BTrees.') and not name.endswith('Py'):
            import importlib
            m = importlib.import_module(module)
            return getattr(m, name + 'Py', c)
        return c


def loads_as_py(data):
    return PyUnpickler(io.BytesIO(data)).load()


def dumps_nomemo(obj, proto):
    f = io.BytesIO()
    p = pickle.Pickler(f, proto)
    p.fast = True
    p.dump(obj)
    return f.getvalue()


def state_form(t, is_tree):
    st = t.__getstate__()
    if is_tree:
        if st is None:
            return 'none'
        return 'embedded' if len(st) == 1 else 'external'
    return 'none' if not st[0] else 'external'


def run_shard(spec, rec):
    fam = families.get(spec['family'])
    for ci in range(spec['containers']):
        for kind in families.KINDS:
            rng = rng_for(spec['seed'], ID, spec['label'], kind, ci)
            run_case(fam, kind, rng, rec, ci)


def same_history_pair(fam, kind, rng, sizes, ci):
    """Run one generated history on the C and on the Python class."""
    vals = [v for v in fam.values(rng)
            if not isinstance(v, float) or f32(v) == v]
    steps = 0 if ci % 9 == 0 else rng.randint(1, 70)
    lsc = corpus.grow_container(fam, kind, 'c', rng, sizes=sizes,
                                steps=steps, values=vals, thin=(ci % 2 == 0),
                                # C rebuilds the set for &=, Python discards
                                # in place: different shapes (finding F28,
                                # judged by C09)
                                exclude=('iand',))
    # replay the literal history on the Python class
    cls = fam.cls(kind, 'py')
    if sizes and kind in families.TREE_KINDS:
        harness.set_node_sizes(cls, *sizes)
    p = cls()
    went_external = False
    for op, args in lsc.log:
        a = tuple(gen.materialize(x, fam, 'py', p, False) for x in args)
        harness.call(p, op, a)
    return lsc, p


def run_case(fam, kind, rng, rec, ci):
    is_tree = kind in families.TREE_KINDS
    is_mapping = kind in families.MAPPING_KINDS
    sizes = gen.NODE_SIZES[ci % len(gen.NODE_SIZES)] if is_tree else None
    if is_tree and ci % 8 == 7:
        sizes = None
    lsc, p = same_history_pair(fam, kind, rng, sizes, ci)
    c = lsc.c
    model = lsc.m
    want = model.contents()
    desc = dict(family=fam.name, kind=kind, sizes=sizes,
                history=[brief(x, 90) for x in lsc.log[-50:]],
                history_len=len(lsc.log))
    if not eq(harness.contents(p, is_mapping), want) or \
            not eq(harness.contents(c, is_mapping), want):
        return      # C01/C09's business
    # thin back to one external leaf now and then (embedded->external->one)
    objs = {'c': c, 'py': p}
    shape = {}
    f22 = {}
    for impl, o in objs.items():
        form = state_form(o, is_tree)
        rec.ev('%s:form:%s' % (impl, form))
        if is_tree:
            w = walker.walk(o, is_mapping)
            if w.errors:
                return
            shape[impl] = walker.shape_class(w)
            f22[impl] = w.inline_nonroot > 0
            if form == 'external' and len(w.leaf_keys) == 1:
                rec.ev(impl + ':embedded->external->one-leaf')
        else:
            shape[impl] = (form, min(len(want), 3))
            f22[impl] = False

    def fail(mech, impl, **kw):
        d = dict(desc, impl=impl)
        d.update(kw)
        if f22.get(impl if impl in f22 else 'c') and mech in (
                'clone-damaged', 'clone-contents-differ', 'clone-misbehaves'):
            d['finding'] = 'F22'
        rec.violation(mech, **d)

    def check_clone(clone, impl, how, deep=True):
        """contents, soundness, and 20 further calls in lock-step."""
        rec.evaluations += 1
        rec.seen(impl, kind, state_form(objs[impl], is_tree), shape[impl],
                 how.split(':')[0])
        exp_cls = fam.cls(kind, impl)
        if how in ('deepcopy', 'copy') and impl == 'py' and \
                type(clone) is fam.cls(kind, 'c'):
            # by design the Python classes reduce to their C counterparts
            exp_cls = fam.cls(kind, 'c')
            impl = 'c'
        if type(clone) is not exp_cls:
            fail('clone-of-wrong-class', impl, how=how,
                 observed=type(clone).__name__, expected=exp_cls.__name__)
            return False
        try:
            got = harness.contents(clone, is_mapping)
        except Exception as e:
            fail('clone-contents-differ', impl, how=how,
                 detail='%s: %s' % (type(e).__name__, e))
            return False
        if not eq(got, want):
            fail('clone-contents-differ', impl, how=how,
                 observed=brief(got, 300), expected=brief(want, 300))
            return False
        if is_tree:
            errs, _ = hist.structural_checks(clone, is_mapping)
            if errs:
                fail('clone-damaged', impl, how=how, errors=errs[:3])
                return False
        if deep:
            ls = hist.LockStep(fam, kind, impl, rng, rec, sizes=sizes,
                               container=clone, structure=True,
                               judge='contents', read_ops=False)
            ls.m = model.copy()
            ls.g.universe = lsc.g.universe
            ls.g.values = lsc.g.values
            n0 = len(rec.violations)
            ok = ls.run(20)
            if not ok or len(rec.violations) > n0:
                # re-label: the clone misbehaved after the round trip
                for v in rec.violations[n0:]:
                    v['mechanism'] = 'clone-misbehaves'
                    v['how'] = how
                    if f22.get(impl):
                        v['finding'] = 'F22'
                return False
        return True

    # ---- pickle, all protocols; C vs Python bytes ------------------------
    for proto in range(6):
        try:
            dc = pickle.dumps(c, proto)
            dp = pickle.dumps(p, proto)
        except Exception as e:
            fail('pickle-raised', 'c', proto=proto,
                 detail='%s: %s' % (type(e).__name__, e))
            return
        rec.ev('protocol:%d' % proto)
        rec.evaluations += 1
        if dc != dp:
            d = {}
            if dumps_nomemo(c, proto) == dumps_nomemo(p, proto):
                # identical except for pickle memoisation
                d['finding'] = 'F13'
            rec.violation('c-and-python-pickles-differ', impl='c-vs-py',
                          proto=proto, len_c=len(dc), len_py=len(dp),
                          memo_only='finding' in d, **dict(desc, **d))
            if not d:
                return
        else:
            rec.ev('pickles-identical')
        if proto in (0, 2, 3, 5) or ci % 3 == 0:
            deep = (proto == 3)
            try:
                c2 = pickle.loads(dc)        # C pickle -> C classes
                p2c = pickle.loads(dp)       # Python pickle -> C classes
                c2p = loads_as_py(dc)        # C pickle -> Python classes
                p2 = loads_as_py(dp)         # Python pickle -> Python classes
            except Exception as e:
                fail('unpickle-raised', 'c', proto=proto,
                     detail='%s: %s' % (type(e).__name__, e))
                return
            if not check_clone(c2, 'c', 'pickle:%d:c->c' % proto, deep):
                return
            rec.ev('cross:py->c')
            if not check_clone(p2c, 'c', 'pickle:%d:py->c' % proto, deep):
                return
            rec.ev('cross:c->py')
            if not check_clone(c2p, 'py', 'pickle:%d:c->py' % proto, deep):
                return
            if not check_clone(p2, 'py', 'pickle:%d:py->py' % proto, False):
                return
    # ---- copy / deepcopy ---------------------------------------------------
    for impl, o in objs.items():
        try:
            dcp = copy.deepcopy(o)
        except Exception as e:
            fail('deepcopy-raised', impl, detail='%s: %s' % (
                type(e).__name__, e))
            continue
        check_clone(dcp, impl, 'deepcopy')
        try:
            sc = copy.copy(o)
        except Exception as e:
            d = {}
            if impl == 'py' and is_tree:
                d['finding'] = 'F24'
            rec.violation('copy-raised', detail='%s: %s' % (
                type(e).__name__, e), **dict(desc, impl=impl, **d))
            continue
        check_clone(sc, impl, 'copy', deep=False)
    # ---- __getstate__ -> fresh __setstate__ (last: shares the children) ---
    for impl, o in objs.items():
        st = o.__getstate__()
        cls = fam.cls(kind, impl)
        fresh = cls()
        try:
            if st is not None:
                fresh.__setstate__(st)
        except Exception as e:
            fail('setstate-raised', impl, detail='%s: %s' % (
                type(e).__name__, e))
            continue
        if fresh.__getstate__() != st and not eq(
                harness.contents(fresh, is_mapping), want):
            fail('clone-contents-differ', impl, how='setstate')
            continue
        check_clone(fresh, impl, 'setstate', deep=(impl == 'c'))
    if ci == 1 and kind == 'BTree':
        rec.sample(dict(family=fam.name, kind=kind, sizes=sizes,
                        contents=brief(want, 200),
                        pickle_len=len(pickle.dumps(c, 3))))
