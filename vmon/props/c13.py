"""C13 - only representable keys and values are stored, and read back
exactly."""
import math

from .. import families, harness
from ..families import INT_RANGES, Indexable, Plain, f32, is_duck_number
from ..harness import brief, call, eq
from ..runner import rng_for

ID = 'C13'
LEVEL = 'exploration'
RULE = ('evaluations = (family, implementation, writing entry point, datum, '
        'position key/value, empty or populated container) cases: one '
        'boundary or hostile datum (every int around +-2^31, 2^32, +-2^63, '
        '2^64, huge ints, bools, floats incl. inf/nan/subnormal/out of '
        'float32 range, str, bytes of length 0..8, None, tuples, objects with '
        'default comparison, __index__ objects) is offered through item '
        'assignment, insert, setdefault, update(dict / pairs), the '
        'constructor, add, Set.update and __setstate__; an independent '
        'representability predicate decides: representable data must be '
        'stored and read back in normal form (float32 rounding), anything '
        'else must raise TypeError and leave the container unchanged, and '
        'looking it up must report absence; distinct_nontrivial = distinct '
        '(impl, family, entry point, datum class, position, representable?, '
        'outcome) tuples')
ASSUMPTIONS = ['families.key_ok / val_ok / norm_val are the independent '
               'representability predicate and normal form']

ENTRY_M = ['setitem', 'insert', 'setdefault', 'update-dict', 'update-pairs',
           'ctor-dict', 'ctor-pairs', 'setstate', 'update-container',
           'setstate-separator']
ENTRY_S = ['add', 'sinsert', 'supdate', 'ctor-list', 'setstate',
           'update-container', 'setstate-separator']


def must_see(tier):
    m = {'stored-and-read-back': 2000, 'rejected-typeerror-unchanged': 2000,
         'lookup-absent': 500}
    for e in ENTRY_M + ENTRY_S:
        m['entry:' + e] = 50
    return m


def plan(tier, seed):
    q = tier == 'quick'
    specs = []
    for fam in families.FAMILY_NAMES:
        specs.append(dict(label=fam, family=fam, seed=seed, tier=tier,
                          variant='mon', passes=5 if q else 150,
                          timeout=900 if q else 7200))
    if not q:
        for fam in families.FAMILY_NAMES:
            specs.append(dict(label=fam + '-asan', family=fam, seed=seed + 1,
                              tier=tier, variant='asan', passes=1,
                              timeout=7200))
    return specs


def data_for(fam, pos, rng):
    pal = list(families.hostile_palette())
    code = fam.kc if pos == 'key' else fam.vc
    if code in INT_RANGES:
        lo, hi = INT_RANGES[code]
        for d in (-2, -1, 0, 1, 2):
            pal.append(('int', lo + d))
            pal.append(('int', hi + d))
    if code == 'f':
        pal += [('bytes', b'\x00\x00'), ('bytes', b'\xff\xff'),
                ('bytes', b'ab')]
    if code == 's':
        pal += [('bytes', b'\x00' * 6), ('bytes', b'\xff' * 6)]
    return pal


def good_key(fam, rng, avoid):
    for _ in range(50):
        k = rng.choice(fam.key_universe(
            rng, n=10, flavour='int' if fam.kc == 'O' else None))
        if k is not None and k not in avoid:
            return k
    return None


def run_shard(spec, rec):
    fam = families.get(spec['family'])
    rng = rng_for(spec['seed'], ID, spec['label'])
    for _ in range(spec['passes']):
        for impl in ('c', 'py'):
            for kind in families.KINDS:
                is_mapping = kind in families.MAPPING_KINDS
                entries = ENTRY_M if is_mapping else ENTRY_S
                for pos in (('key', 'value') if is_mapping else ('key',)):
                    for lab, datum in data_for(fam, pos, rng):
                        entry = rng.choice(entries)
                        if entry == 'insert' and kind != 'BTree':
                            entry = 'setitem'
                        populated = rng.random() < 0.6
                        run_case(fam, impl, kind, entry, pos, lab, datum,
                                 populated, rng, rec)


def build_base(fam, impl, kind, populated, rng, none_only=False):
    cls = fam.cls(kind, impl)
    if kind in families.TREE_KINDS:
        harness.set_node_sizes(cls, 3, 3)
    c = cls()
    if none_only:
        # the only stored key is None, which is never handed to a rich
        # comparison: a key that cannot be ordered is not found out by
        # comparing it with what is there
        if kind in families.MAPPING_KINDS:
            c[None] = rng.choice(fam.values(rng)[:2])
        else:
            c.add(None)
    elif populated:
        flav = 'int' if fam.kc == 'O' else None
        uni = [k for k in fam.key_universe(rng, n=10, flavour=flav)
               if k is not None]
        vals = fam.values(rng)
        for k in rng.sample(uni, min(len(uni), rng.randint(3, 9))):
            if kind in families.MAPPING_KINDS:
                c[k] = rng.choice([v for v in vals if not isinstance(
                    v, float) or f32(v) == v])
            else:
                c.add(k)
    return c


def do_write(fam, impl, kind, c, entry, k, v):
    """-> (outcome, container)  (constructors make a new container)"""
    is_mapping = kind in families.MAPPING_KINDS
    cls = fam.cls(kind, impl)
    if entry == 'setitem':
        return call(c, 'setitem', (k, v)), c
    if entry == 'insert':
        return call(c, 'insert', (k, v)), c
    if entry == 'setdefault':
        return call(c, 'setdefault', (k, v)), c
    if entry == 'update-dict':
        try:
            d = {k: v}
        except TypeError:
            return call(c, 'update', ([(k, v)],)), c
        return call(c, 'update', (d,)), c
    if entry == 'update-pairs':
        return call(c, 'update', ([(k, v)],)), c
    if entry in ('ctor-dict', 'ctor-pairs', 'ctor-list'):
        base = list(c.items()) if is_mapping else list(c.keys())
        try:
            if entry == 'ctor-dict':
                try:
                    arg = dict(base)
                    if k in arg:
                        arg = base + [(k, v)]
                    else:
                        arg[k] = v
                except TypeError:
                    arg = base + [(k, v)]
            elif entry == 'ctor-pairs':
                arg = base + [(k, v)]
            else:
                arg = base + [k]
            return ('ok', None, None), cls(arg)
        except Exception as e:
            return ('exc', type(e).__name__, e), c
    if entry == 'add':
        return call(c, 'add', (k,)), c
    if entry == 'sinsert':
        return call(c, 'sinsert', (k,)), c
    if entry == 'supdate':
        return call(c, 'supdate', ([k],)), c
    if entry == 'update-container':
        # the datum arrives inside ANOTHER BTrees container (of a family
        # that can hold it): what the source accepted proves nothing about
        # the target's types
        if is_mapping:
            # key datum: object-keyed source; value datum: the same key
            # type with object values
            if not fam.key_ok(k) or fam.kc == 'O' or \
                    (fam.kc + 'O') not in families.FAMILY_NAMES:
                sname = 'OO'
            else:
                sname = fam.kc + 'O'
            sfam = families.get(sname)
            src = sfam.cls('Bucket' if id(k) % 2 else 'BTree', impl)()
            src[k] = v
        else:
            sfam = families.get('OO')
            src = sfam.cls('Set' if id(k) % 2 else 'TreeSet', impl)()
            src.add(k)
        return call(c, 'update' if is_mapping else 'supdate', (src,)), c
    if entry == 'setstate-separator':
        # a two-leaf tree state whose SEPARATOR is the datum
        fresh = cls()
        lcls = fam.cls('Bucket' if is_mapping else 'Set', impl)
        gk = [x for x in fam.key_universe(None, n=6, flavour='int')
              if x is not None][:2] if False else None
        leafa, leafb = lcls(), lcls()
        st = ((leafa, k, leafb), leafa)
        try:
            fresh.__setstate__(st)
            return ('ok', None, None), fresh
        except Exception as e:
            return ('exc', type(e).__name__, e), c
    if entry == 'setstate':
        # a one-leaf state holding only the datum
        fresh = cls()
        if is_mapping:
            flat = (k, v)
        else:
            flat = (k,)
        st = (flat,)
        if kind in families.TREE_KINDS:
            st = ((st,),)
        try:
            fresh.__setstate__(st)
            return ('ok', None, None), fresh
        except Exception as e:
            return ('exc', type(e).__name__, e), c
    raise AssertionError(entry)


def run_case(fam, impl, kind, entry, pos, lab, datum, populated, rng, rec):
    is_mapping = kind in families.MAPPING_KINDS
    if entry == 'setstate-separator':
        ok_ = fam.key_ok(datum) if pos == 'key' else True
        if kind not in families.TREE_KINDS or pos != 'key' or ok_ or \
                fam.kc == 'O':
            entry = 'setstate'
        else:
            populated = False
    if entry == 'update-container':
        # the source (object-keyed / object-valued) must be able to hold it
        if pos == 'key' and not families.get('OO').key_ok(datum):
            entry = 'update-pairs' if is_mapping else 'supdate'
        elif pos == 'key' and isinstance(datum, float) and datum != datum:
            entry = 'update-pairs' if is_mapping else 'supdate'
        elif fam.name == 'fs' and pos == 'value':
            entry = 'update-pairs'
    # object keys of a foreign type are representable but not comparable with
    # the keys already there: not this property's business
    if fam.kc == 'O' and pos == 'key' and populated and not isinstance(
            datum, (int, float, type(None), Plain)) or (
            fam.kc == 'O' and pos == 'key' and isinstance(datum, float)
            and datum != datum):
        populated = False
    if fam.kc == 'O' and pos == 'key' and isinstance(
            datum, (dict, complex, memoryview)):
        return      # accepted but not orderable (like NaN)
    none_only = (fam.kc == 'O' and pos == 'key' and isinstance(datum, Plain)
                 and not entry.startswith('setstate') and rng.random() < .6)
    c = build_base(fam, impl, kind, populated and entry != 'setstate', rng,
                   none_only=none_only)
    if none_only:
        rec.ev('base-holds-only-None')
    before = harness.contents(c, is_mapping)
    present = set()
    try:
        present = set(c.keys())
    except TypeError:
        pass
    if pos == 'key':
        k = datum
        v = rng.choice([x for x in fam.values(rng)
                        if not isinstance(x, float) or f32(x) == x]) \
            if is_mapping else None
        ok = fam.key_ok(k)
    else:
        k = good_key(fam, rng, present)
        if k is None:
            return
        v = datum
        ok = fam.val_ok(v)
    desc = dict(family=fam.name, impl=impl, kind=kind, entry=entry,
                position=pos, datum_class=lab, datum=brief(datum, 80),
                populated=populated, none_only=none_only)
    rec.journal(harness.safe_repr(desc))
    is_index = isinstance(datum, Indexable) or (
        is_duck_number(datum) and pos == 'value' and fam.vc == 'F')
    out, c2 = do_write(fam, impl, kind, c, entry, k, v)
    rec.evaluations += 1
    rec.ev('entry:' + entry)
    outcome = out[1] if out[0] == 'exc' else 'ok'
    rec.seen(impl, fam.name, entry, lab, pos, ok, outcome)
    try:
        after = harness.contents(c2, is_mapping)
    except Exception as e:
        rec.violation('contents-unreadable-after-write', detail='%s: %s' % (
            type(e).__name__, e), **desc)
        return

    def tag():
        if is_index:
            return 'F15'
        if entry.startswith('setstate') and (impl == 'py' or (
                fam.kc == 'O' and pos == 'key')):
            return 'F17'
        if impl == 'py' and fam.vc == 'F' and pos == 'value' and \
                isinstance(datum, (int, float)):
            return 'F08'
        return None

    if ok:
        nk = fam.norm_key(k) if pos == 'key' else k
        if out[0] == 'exc':
            # float magnitudes beyond float32 may be rejected instead of
            # becoming +-inf
            if pos == 'value' and fam.vc == 'F' and isinstance(
                    datum, (int, float)) and not isinstance(datum, bool):
                try:
                    big = abs(float(datum)) > 3.4028235677973366e38
                except OverflowError:
                    big = True
                if big and out[1] in ('TypeError', 'OverflowError'):
                    rec.ev('float-out-of-range-rejected')
                    return
            # setdefault/insert on an existing key legitimately change nothing
            d = dict(desc, observed=brief(out[:2]), detail=brief(out[2]))
            t = tag()
            if t:
                d['finding'] = t
            rec.violation('representable-datum-rejected', **d)
            return
        # stored (or, for setdefault/insert on an existing key, left alone)
        existed = pos == 'key' and any(eq(nk, p) for p in present) and \
            entry in ('setdefault', 'insert')
        if is_mapping:
            want_v = fam.norm_val(v)
            got = [x for x in after if eq(x[0], nk)]
            if pos == 'value' and fam.vc == 'F' and isinstance(
                    v, (int, float)):
                try:
                    want_v = f32(float(v))
                except OverflowError:
                    want_v = math.copysign(float('inf'), v) if \
                        isinstance(v, float) else None
            if not got:
                bad = 'not stored'
            elif existed:
                bad = None
            elif not eq(got[0][1], want_v) or (
                    type(got[0][1]) is bool) != (type(want_v) is bool) and \
                    fam.vc != 'O':
                bad = 'read back %r, expected %r' % (got[0][1], want_v)
            elif type(got[0][0]) is bool and fam.kc != 'O':
                bad = 'key read back as bool'
            else:
                bad = None
        else:
            got = [x for x in after if eq(x, nk)]
            bad = None if got else 'not stored'
            if got and type(got[0]) is bool and fam.kc != 'O':
                bad = 'key read back as bool'
        if bad:
            d = dict(desc, detail=bad, observed=brief(after, 200))
            t = tag()
            if t:
                d['finding'] = t
            rec.violation('representable-datum-not-read-back-exactly', **d)
            return
        # lookups find it
        if pos == 'key':
            r1 = call(c2, 'contains', (k,))
            if r1[:2] != ('ok', True):
                rec.violation('stored-key-not-found', observed=brief(r1[:2]),
                              **desc)
                return
        rec.ev('stored-and-read-back')
        return
    # ---- not representable: TypeError, nothing changed ------------------
    if out[0] == 'ok' or not eq(after, before) or out[1] != 'TypeError':
        d = dict(desc, observed=brief(out[:2]), before=brief(before, 200),
                 after=brief(after, 200))
        t = tag()
        if t:
            d['finding'] = t
        if out[0] == 'exc' and eq(after, before):
            mech = 'unrepresentable-datum-rejected-with-wrong-exception'
        elif out[0] == 'exc':
            mech = 'rejected-write-changed-contents'
        else:
            mech = 'unrepresentable-datum-stored'
        rec.violation(mech, **d)
        return
    rec.ev('rejected-typeerror-unchanged')
    # looking an unrepresentable key up reports absence
    if pos == 'key' and not (fam.kc == 'O' and populated):
        for op, args in (('contains', (k,)), ('has_key', (k,)),
                         ('get', (k,)), ('getitem', (k,))):
            if not is_mapping and op in ('get', 'getitem'):
                continue
            r = call(c, op, args)
            absent = (r[0] == 'exc' and r[1] == 'KeyError') or (
                r[0] == 'ok' and (r[1] is None or r[1] is False))
            if not absent:
                d = dict(desc, lookup=op, observed=brief(r[:2]))
                if is_index:
                    d['finding'] = 'F15'
                elif fam.kc == 'O':
                    d['finding'] = 'F14'
                rec.violation('lookup-of-unrepresentable-key-not-absent', **d)
                return
        rec.ev('lookup-absent')
