"""C18 - the diagnostic checkers accept every valid tree and detect every
corruption."""
from ..harness import safe_repr as _srepr  # noqa: E402
from .. import corpus, families, gen, surgeon, walker
from ..families import f32, sort_keys
from ..harness import brief
from ..model import klt
from ..runner import rng_for

ID = 'C18'
LEVEL = 'exploration'
RULE = ('evaluations = trees handed to BTrees.check.check() and _check(): '
        'valid trees reached by histories, their surgeon-rebuilt controls '
        '(same description rebuilt bottom-up through __setstate__), and for '
        'every tree and every node position one single corruption per class '
        '(swap / duplicate / shift a leaf key, key moved across a separator, '
        'separator moved out of its interval, next pointer dropped / '
        'skipping / self-loop / last leaf pointing back, emptied leaf, '
        'emptied interior node, wrong firstbucket, mixed child kinds); the '
        'independent walker decides on the rebuilt tree whether the '
        'corruption really breaks key order, containment, leaf linking, '
        'child-kind uniformity or non-emptiness - then check() or _check() '
        'must raise AssertionError; valid trees and controls must be '
        'accepted by both; distinct_nontrivial = distinct (impl, kind, '
        'corruption class, level [root/interior/leaf], position '
        '[first/middle/last], detected by [check/_check/both]) tuples')
ASSUMPTIONS = ['vmon/walker.py decides whether a corruption breaks one of '
               'the five invariant classes the property names', 'one '
               'corruption at a time']

CLASSES = ['swap-keys', 'dup-key', 'shift-key-below', 'shift-key-above',
           'key-across-separator', 'sep-too-high', 'sep-too-low',
           'next-drop', 'next-skip', 'next-self', 'next-last-back',
           'empty-leaf', 'empty-node', 'wrong-firstbucket', 'mixed-kinds']


def must_see(tier):
    m = {'valid-accepted': 100, 'control-accepted': 100,
         'valid-ghost-accepted': 100, 'c:detected-on-ghost-tree': 200,
         'py:detected-on-ghost-tree': 200}
    for impl in ('c', 'py'):
        for c in CLASSES:
            if c == 'empty-node':
                continue
            m['%s:detected:%s' % (impl, c)] = 3
        m[impl + ':detected-only-by:check'] = 5
        m[impl + ':detected-only-by:_check'] = 5
        for lvl in ('first', 'middle', 'last'):
            m['%s:position:%s' % (impl, lvl)] = 10
        m[impl + ':height>=3'] = 5
        m[impl + ':detected:inplace'] = 50
        m[impl + ':detected:inplace-empty'] = 10
        m[impl + ':detected:inplace-interior-empty'] = 10
    return m


QUICK_FAMS = ['OO', 'II', 'fs', 'LF']
ROT = [f for f in families.FAMILY_NAMES if f not in QUICK_FAMS]


def plan(tier, seed):
    q = tier == 'quick'
    fams = QUICK_FAMS + [ROT[(seed * 3 + i) % len(ROT)] for i in range(3)] \
        if q else list(families.FAMILY_NAMES)
    specs = []
    for fam in fams:
        for impl in ('c', 'py'):
            specs.append(dict(label='%s-%s' % (fam, impl), family=fam,
                              impl=impl, trees=30 if q else 1200, seed=seed,
                              tier=tier, variant='mon',
                              timeout=900 if q else 7200))
    return specs


def run_checkers(t):
    """-> (set of checkers that raised AssertionError, other exceptions)"""
    from BTrees.check import check
    det = set()
    other = []
    try:
        check(t)
    except AssertionError:
        det.add('check')
    except Exception as e:
        other.append(('check', '%s: %s' % (type(e).__name__, str(e)[:100])))
    try:
        t._check()
    except AssertionError:
        det.add('_check')
    except Exception as e:
        other.append(('_check', '%s: %s' % (type(e).__name__, str(e)[:100])))
    return det, other


def store_ghost(t, impl):
    """Commit `t` to a MiniDB and return (connection, tree) with every node
    a ghost - the state in which a checker meets a tree that has just been
    opened from a database."""
    from .. import minidb
    conn = minidb.Connection(minidb.Storage(), impl)
    conn.add(t)
    conn.commit()
    conn.cache.minimize()
    return conn, t


def run_checkers_ghost(conn, t):
    """Like run_checkers, but each checker starts from an all-ghost tree."""
    from BTrees.check import check
    det = set()
    other = []
    for name, fn in (('check', lambda: check(t)),
                     ('_check', lambda: t._check())):
        conn.cache.minimize()
        try:
            fn()
        except AssertionError:
            det.add(name)
        except Exception as e:
            other.append((name, '%s: %s' % (type(e).__name__, str(e)[:100])))
    return det, other


def pos_of(i, n):
    return 'first' if i == 0 else 'last' if i == n - 1 else 'middle'


def corruptions(desc, rng, universe):
    """Yield (class, level, position, new_desc, build_kwargs)."""
    leaves = desc.all_leaves()
    nl = len(leaves)
    nodes = desc.all_nodes() if isinstance(desc, surgeon.Node) else []
    su = sort_keys([k for k in universe if k is not None])

    def with_leaf(i, fn):
        d = desc.copy()
        fn(d.all_leaves()[i])
        return d
    for i, lf in enumerate(leaves):
        p = pos_of(i, nl)
        if len(lf.keys) >= 2:
            j = rng.randrange(len(lf.keys) - 1)

            def swap(l, j=j):
                l.keys[j], l.keys[j + 1] = l.keys[j + 1], l.keys[j]
            yield 'swap-keys', 'leaf', p, with_leaf(i, swap), {}

            def dup(l, j=j):
                l.keys[j + 1] = l.keys[j]
            yield 'dup-key', 'leaf', p, with_leaf(i, dup), {}
        if i > 0:
            # a key smaller than everything the previous leaf holds
            prev_min = leaves[i - 1].keys[0]
            below = [k for k in su if klt(k, prev_min)]
            if below:
                def sb(l, k=below[-1]):
                    l.keys[0] = k
                yield 'shift-key-below', 'leaf', p, with_leaf(i, sb), {}
            # first key replaced by a key of the previous leaf's range
            def ac(l, k=leaves[i - 1].keys[-1]):
                l.keys[0] = k
            if len(lf.keys) >= 1:
                yield 'key-across-separator', 'leaf', p, with_leaf(i, ac), {}
        if i < nl - 1:
            nxt_max = leaves[i + 1].keys[-1]
            above = [k for k in su if klt(nxt_max, k)]
            if above:
                def sa(l, k=above[0]):
                    l.keys[-1] = k
                yield 'shift-key-above', 'leaf', p, with_leaf(i, sa), {}
        # leaf chain
        if nl > 1:
            if i < nl - 1:
                yield 'next-drop', 'leaf', p, desc, dict(
                    link_override={i: None})
                yield 'next-self', 'leaf', p, desc, dict(
                    link_override={i: 'self'})
            if i < nl - 2:
                yield 'next-skip', 'leaf', p, desc, dict(
                    link_override={i: i + 2})
            if i == nl - 1:
                yield 'next-last-back', 'leaf', p, desc, dict(
                    link_override={i: rng.randrange(nl - 1)})
            # an emptied leaf
            def em(l):
                l.keys[:] = []
                if l.values is not None:
                    l.values[:] = []
            yield 'empty-leaf', 'leaf', p, with_leaf(i, em), {}
    for ni, nd in enumerate(nodes):
        lvl = 'root' if ni == 0 else 'interior'
        n = len(nd.children)
        for si in range(len(nd.seps)):
            p = pos_of(si, len(nd.seps))
            right_min = nd.children[si + 1].min_key()
            left_max = nd.children[si].max_key()
            higher = [k for k in su if klt(right_min, k)]
            lower = [k for k in su if klt(k, left_max) or k == left_max]
            if higher:
                d = desc.copy()
                d.all_nodes()[ni].seps[si] = higher[0]
                yield 'sep-too-high', lvl, p, d, {}
            if lower:
                d = desc.copy()
                d.all_nodes()[ni].seps[si] = lower[-1]
                yield 'sep-too-low', lvl, p, d, {}
        if ni > 0:
            d = desc.copy()
            target = d.all_nodes()[ni]
            target.children[:] = []
            target.seps[:] = []
            yield 'empty-node', lvl, 'middle', d, {}
        # mixed child kinds: replace one interior child by one of its leaves
        kids = nd.children
        if n >= 2 and isinstance(kids[0], surgeon.Node):
            d = desc.copy()
            tn = d.all_nodes()[ni]
            ci = rng.randrange(n)
            tn.children[ci] = tn.children[ci].all_leaves()[0]
            yield 'mixed-kinds', lvl, pos_of(ci, n), d, {}
    if nl > 1:
        yield 'wrong-firstbucket', 'root', 'first', desc, dict(
            firstbucket=rng.randrange(1, nl))


PROPERTY_ERRORS = ('keys not', 'leaf keys not', 'outside interval',
                   'separator', 'chain', 'cycle', 'empty leaf',
                   'empty interior', 'mixed kinds', 'firstbucket',
                   'without children', 'interior node without')


def breaks_property(w):
    """Does the walker see a violation of one of the five invariant classes
    the property names (order, containment, linking, child kinds,
    non-emptiness)?"""
    for e in w.errors:
        if any(p in e for p in PROPERTY_ERRORS):
            return e
    return None


def run_shard(spec, rec):
    fam = families.get(spec['family'])
    impl = spec['impl']
    for ti in range(spec['trees']):
        for kind in families.TREE_KINDS:
            rng = rng_for(spec['seed'], ID, spec['label'], kind, ti)
            run_tree(fam, kind, impl, rng, rec, ti)


def run_tree(fam, kind, impl, rng, rec, ti):
    is_mapping = kind == 'BTree'
    sizes = gen.NODE_SIZES[ti % len(gen.NODE_SIZES)]
    vals = [v for v in fam.values(rng)
            if not isinstance(v, float) or f32(v) == v]
    uni = fam.key_universe(rng, n=rng.choice([16, 26, 36]))
    if fam.kc == 'O':
        uni = [k for k in uni if k is not None]
        if ti % 2:
            # None is a legal object key and the smallest one
            uni.append(None)
            rec.ev(impl + ':none-key-universe')
    ls = corpus.grow_container(fam, kind, impl, rng, sizes=sizes,
                               universe=uni, values=vals,
                               steps=rng.randint(10, 90))
    t = ls.c
    desc0 = dict(family=fam.name, kind=kind, impl=impl, sizes=sizes)
    w = walker.walk(t, is_mapping, check_sizes=False)
    if w.errors:
        return          # C03's business
    # (a) the valid tree is accepted
    det, other = run_checkers(t)
    rec.evaluations += 1
    if det or other:
        rec.violation('valid-tree-rejected', by=sorted(det), other=other,
                      leaves=brief(w.leaf_keys, 300), **desc0)
        return
    rec.ev('valid-accepted')
    if not w.leaf_keys:
        return
    if w.height >= 3:
        rec.ev(impl + ':height>=3')
    d = surgeon.describe(t, is_mapping)
    # control: the same description rebuilt through __setstate__
    try:
        ctl = surgeon.build(d, fam, kind, impl)
    except Exception as e:
        rec.violation('surgeon-control-build-failed', detail='%s: %s' % (
            type(e).__name__, e), **desc0)
        return
    det, other = run_checkers(ctl)
    wc = walker.walk(ctl, is_mapping, check_sizes=False)
    rec.evaluations += 1
    if det or other or wc.errors or wc.keys != w.keys:
        rec.violation('control-rejected', by=sorted(det), other=other,
                      walker=wc.errors[:2], **desc0)
        return
    rec.ev('control-accepted')
    # (a') the same valid tree as a checker meets it right after opening a
    # database: every node a ghost (children are activated on demand)
    stored_ok = False
    # (the walks hold the node objects: a checker that looks at reference
    # counts must meet the tree without such extra references)
    w.release()
    wc.release()
    del t, ls
    if not wc.inline_nonroot:
        try:
            conn, gt = store_ghost(ctl, impl)
            det, other = run_checkers_ghost(conn, gt)
            wg = walker.walk(gt, is_mapping, check_sizes=False).release()
        except Exception as e:
            rec.ev('ghost-store-failed')
            wg = None
        if wg is not None and (wg.errors or wg.keys != w.keys):
            rec.ev('ghost-reload-differs')   # F22/F34: C04's and C06's
        elif wg is not None:
            rec.evaluations += 1
            stored_ok = True
            if det or other:
                rec.violation('valid-ghost-tree-rejected', by=sorted(det),
                              other=other, leaves=brief(w.leaf_keys, 300),
                              shape=brief(w.shape, 200), **desc0)
                return
            rec.ev('valid-ghost-accepted')
    # (b) single corruptions
    for cls, lvl, pos, cd, kw in corruptions(d, rng, uni):
        rec.journal(_srepr((desc0, cls, lvl, pos)))
        try:
            ct = surgeon.build(cd, fam, kind, impl, **kw)
        except Exception as e:
            rec.ev('corruption-not-loadable:' + cls)
            continue
        try:
            wk = walker.walk(ct, is_mapping, check_sizes=False)
            broken = breaks_property(wk)
        except Exception as e:
            broken = 'walker raised %s' % type(e).__name__
        rec.evaluations += 1
        if not broken:
            rec.ev('benign:' + cls)
            continue
        det, other = run_checkers(ct)
        rec.ev('%s:position:%s' % (impl, pos))
        by = 'both' if len(det) == 2 else (sorted(det)[0] if det else 'none')
        rec.seen(impl, kind, cls, lvl, pos, by)
        if not det:
            rec.violation('corruption-not-detected', corruption=cls,
                          level=lvl, position=pos, walker=brief(broken, 200),
                          other=other, leaves=brief(w.leaf_keys, 300),
                          shape=brief(w.shape, 200), **desc0)
            continue
        rec.ev('%s:detected:%s' % (impl, cls))
        if len(det) == 1:
            rec.ev('%s:detected-only-by:%s' % (impl, sorted(det)[0]))
        # the same corrupted tree stored and met as ghosts: still detected
        if stored_ok and cls not in ('mixed-kinds', 'wrong-firstbucket',
                                     'next-self', 'next-last-back'):
            try:
                ct2 = surgeon.build(cd, fam, kind, impl, **kw)
                conn2, _ = store_ghost(ct2, impl)
                wk2 = walker.walk(ct2, is_mapping,
                                  check_sizes=False).release()
                conn2.cache.minimize()
            except Exception:
                rec.ev('corruption-not-storable:' + cls)
                continue
            try:
                still = breaks_property(wk2)
            except Exception:
                still = None
            if not still:
                # storing changed the damage (e.g. a dropped next pointer is
                # re-created from another reference): nothing to demand
                rec.ev('corruption-changed-by-storing:' + cls)
                continue
            det2, other2 = run_checkers_ghost(conn2, ct2)
            rec.evaluations += 1
            if not det2:
                rec.violation('corruption-not-detected-on-ghost-tree',
                              corruption=cls, level=lvl, position=pos,
                              walker=brief(still, 200), other=other2,
                              leaves=brief(w.leaf_keys, 300),
                              shape=brief(w.shape, 200), **desc0)
                continue
            rec.ev('%s:detected-on-ghost-tree' % impl)
    # (c) damage done IN PLACE to a node of a live tree (__setstate__ on an
    # object that already holds entries keeps its allocated vectors, cached
    # sizes and links: not the same object as a freshly loaded one)
    for _ in range(4):
        try:
            ct = surgeon.build(d, fam, kind, impl)
        except Exception:
            break
        wk = walker.walk(ct, is_mapping, check_sizes=False)
        leaves = [l for l in wk.leaf_objs if l is not None]
        wk.release()
        if len(leaves) < 2:
            break
        i = rng.randrange(len(leaves))
        lf = leaves[i]
        st = lf.__getstate__()
        flat = st[0]
        step = 2 if is_mapping else 1
        nk_ = len(flat) // step
        how = rng.choice(['empty', 'empty', 'swap', 'dup', 'drop-next'])
        if how == 'swap' and nk_ >= 2:
            fl = list(flat)
            fl[0], fl[step] = fl[step], fl[0]
            new = (tuple(fl),) + st[1:]
        elif how == 'dup' and nk_ >= 2:
            fl = list(flat)
            fl[step] = fl[0]
            new = (tuple(fl),) + st[1:]
        elif how == 'drop-next' and len(st) > 1:
            new = (flat,)
        else:
            how = 'empty'
            new = ((),) + st[1:]
        del leaves
        try:
            lf.__setstate__(new)
        except Exception:
            rec.ev('corruption-not-loadable:inplace-' + how)
            continue
        del lf
        try:
            wk = walker.walk(ct, is_mapping, check_sizes=False)
            broken = breaks_property(wk)
            wk.release()
        except Exception as e:
            broken = 'walker raised %s' % type(e).__name__
        rec.evaluations += 1
        if not broken:
            rec.ev('benign:inplace-' + how)
            continue
        det, other = run_checkers(ct)
        p_ = pos_of(i, 1 << 30) if False else (
            'first' if i == 0 else 'last')
        rec.seen(impl, kind, 'inplace-' + how, 'leaf', p_,
                 'both' if len(det) == 2 else (sorted(det)[0] if det
                                               else 'none'))
        if not det:
            rec.violation('corruption-not-detected',
                          corruption='inplace-' + how, level='leaf',
                          position=i, walker=brief(broken, 200), other=other,
                          leaves=brief(w.leaf_keys, 300),
                          shape=brief(w.shape, 200), **desc0)
            continue
        rec.ev('%s:detected:inplace-%s' % (impl, how))
        rec.ev(impl + ':detected:inplace')
    # (d) an INTERIOR node of a live tree emptied in place
    # (node.__setstate__(None)): first, middle or last child of its parent
    for _ in range(3):
        try:
            ct = surgeon.build(d, fam, kind, impl)
        except Exception:
            break
        wk = walker.walk(ct, is_mapping, check_sizes=False)
        inner = [o for o in wk.interior_objs if o is not None and o is not ct]
        wk.release()
        if not inner:
            break
        i = rng.choice([0, len(inner) - 1, rng.randrange(len(inner))])
        node = inner[i]
        ninner = len(inner)
        del inner
        try:
            node.__setstate__(None)
        except Exception:
            rec.ev('corruption-not-loadable:inplace-interior-empty')
            continue
        del node
        try:
            wk = walker.walk(ct, is_mapping, check_sizes=False)
            broken = breaks_property(wk)
            wk.release()
        except Exception as e:
            broken = 'walker raised %s' % type(e).__name__
        rec.evaluations += 1
        if not broken:
            rec.ev('benign:inplace-interior-empty')
            continue
        det, other = run_checkers(ct)
        rec.seen(impl, kind, 'inplace-interior-empty', 'interior',
                 'first' if i == 0 else 'last' if i == ninner - 1 else
                 'middle', 'both' if len(det) == 2 else (
                     sorted(det)[0] if det else 'none'))
        if not det:
            rec.violation('corruption-not-detected',
                          corruption='inplace-interior-empty',
                          level='interior', position=i,
                          walker=brief(broken, 200), other=other,
                          leaves=brief(w.leaf_keys, 300),
                          shape=brief(w.shape, 200), **desc0)
            continue
        rec.ev(impl + ':detected:inplace-interior-empty')
    if ti == 0 and kind == 'BTree':
        rec.sample(dict(desc0, leaves=brief(w.leaf_keys, 200),
                        shape=brief(w.shape, 100)))
