"""C05 - evicting nodes from the object cache never changes behaviour and
nothing stays pinned."""
from ..harness import safe_repr as _srepr  # noqa: E402
from .. import dbops, families, gen, harness, hist, inject, minidb, walker
from ..harness import brief, call, eq
from ..inject import FKey
from ..runner import rng_for

ID = 'C05'
LEVEL = 'exploration'
RULE = ('evaluations = public calls on a container stored in MiniDB (real '
        'persistent.PickleCache) compared call by call with an uncached twin '
        'of the same implementation, with cache sweeps (cache.minimize() or '
        '_p_deactivate() of a random node subset) injected between calls, '
        'inside key comparisons of a call (object-keyed families, FKey), and '
        'at the n-th load inside a call (all families), and '
        'with deliberately failing calls; after EVERY single call each cached '
        'node is inspected for a leftover pin (_p_sticky); plus operations '
        'between TWO stored containers (set algebra, weighted operations, '
        'multiunion, in-place operators, update, constructor, lazy sequence, '
        'paired iteration) with a cache sweep at the n-th load inside the '
        'call and, optionally, a later load refused by the data manager '
        '(mode in-load: same result as unstored twins or the data '
        "manager's error with operands unchanged and sound; nothing "
        'pinned); distinct_nontrivial '
        '= distinct (impl, kind, mode, operation, outcome, nodes ghostified '
        'by the sweep [0/1/many]) tuples')
ASSUMPTIONS = ['MiniDB stands in for a ZODB connection',
               'the pin is observable as _p_sticky on cached nodes']

GHOST = -1
OBJ_FAMS = ['OO', 'OI', 'OL', 'OU', 'OQ']


def must_see(tier):
    return {'sweep-ghostified:between': 300, 'c:sweep-ghostified:in-call': 100,
            'py:sweep-ghostified:in-call:leaves-only': 100,
            'c:read-dependency-refused': 30, 'py:read-dependency-refused': 30,
            'c:reload-inside-call': 20, 'pin-checks': 5000,
            'failing-call:TypeError': 20, 'failing-call:KeyError': 20,
            'failing-call:ValueError': 5, 'failing-call:IndexError': 1,
            'c:mutate-reassign': 10, 'py:mutate-reassign': 10,
            'c:sweep-at-load-inside-call': 200,
            'py:sweep-at-load-inside-call': 200,
            'c:sweep-at-load-inside-call:write': 50,
            'py:sweep-at-load-inside-call:write': 50,
            'c:inload:sweep-inside-load': 100, 'py:inload:sweep-inside-load': 100,
            'c:inload:reload-after-in-load-sweep': 30,
            'py:inload:reload-after-in-load-sweep': 30,
            'c:inload:load-refused-after-sweep': 20,
            'py:inload:load-refused-after-sweep': 20,
            'c:sweep-between-iterator-steps': 100,
            'py:sweep-between-iterator-steps': 100,
            'c:bare-jar-history': 20, 'py:bare-jar-history': 20}


def plan(tier, seed):
    specs = []
    q = tier == 'quick'
    for fam in families.FAMILY_NAMES:
        for impl in ('c', 'py'):
            specs.append(dict(label='between-%s-%s' % (fam, impl), family=fam,
                              impl=impl, mode='between',
                              histories=3 if q else 200, seed=seed, tier=tier,
                              variant='mon', timeout=900 if q else 7200))
    for fam in OBJ_FAMS:
        specs.append(dict(label='incall-%s-c' % fam, family=fam, impl='c',
                          mode='in-call', histories=10 if q else 400,
                          seed=seed, tier=tier, variant='mon',
                          timeout=900 if q else 7200))
    specs.append(dict(label='incall-OO-py', family='OO', impl='py',
                      mode='in-call', histories=12 if q else 60, seed=seed,
                      tier=tier, variant='mon', timeout=3000))
    if not q:
        for fam in OBJ_FAMS[1:]:
            specs.append(dict(label='incall-%s-py' % fam, family=fam,
                              impl='py', mode='in-call', histories=30,
                              seed=seed, tier=tier, variant='mon',
                              timeout=3000))
    # both operands of an operation stored; a sweep at the n-th load inside
    # the call, optionally a later load refused (vmon/dbops.py)
    rot = families.FAMILY_NAMES
    if q:
        k0 = (seed * 5) % len(rot)
        rot = list(dict.fromkeys(['OO', 'II', 'fs'] + [
            rot[(k0 + j) % len(rot)] for j in range(5)]))
    for fam in rot:
        for impl in ('c', 'py'):
            specs.append(dict(label='inload-%s-%s' % (fam, impl), family=fam,
                              impl=impl, mode='in-load',
                              histories=120 if q else 2500, seed=seed,
                              tier=tier, variant='mon',
                              timeout=900 if q else 7200))
    for fam in (['OO', 'IF'] if q else ['OO', 'IF', 'OI', 'LO', 'QQ', 'fs']):
        specs.append(dict(label='inload-%s-c-asan' % fam, family=fam,
                          impl='c', mode='in-load',
                          histories=80 if q else 1200, seed=seed + 3,
                          tier=tier, variant='asan',
                          timeout=1500 if q else 7200))
    # the memory half: a node used without being pinned has its arrays freed
    # under the comparison -> use-after-free under ASan
    for fam in (['OO', 'OI'] if q else OBJ_FAMS):
        specs.append(dict(label='incall-%s-c-asan' % fam, family=fam,
                          impl='c', mode='in-call',
                          histories=4 if q else 40, seed=seed + 7, tier=tier,
                          variant='asan', timeout=1500 if q else 7200))
    return specs


def _inload_tagger(mech, d):
    # F38: a refused load while an in-place operator deletes from a stored
    # multi-leaf tree (the key is gone from the leaf before the nodes needed
    # to unlink the emptied leaf are loaded)
    if (mech in ('tree-damaged', 'contents-raised-afterwards')
            and d.get('refused') and d.get('which') == 'A'
            and d.get('multi_leaf_a')
            and d.get('op') in ('iand', 'isub', 'ixor')):
        return 'F38'
    # F16: pure-Python nodes are not pinned: a sweep that may ghostify the
    # INTERIOR nodes a running operation works on
    if d.get('impl') == 'py' and not d.get('leaves_only') and mech in (
            'tree-damaged', 'result-differs-from-unstored-twins',
            'contents-differ-from-unstored-twin', 'contents-raised-afterwards',
            'operand-changed-by-reading-operation'):
        return 'F16'
    return None


def run_shard(spec, rec):
    fam = families.get(spec['family'])
    impl = spec['impl']
    if spec['mode'] == 'in-load':
        for h in range(spec['histories']):
            rng = rng_for(spec['seed'], ID, spec['label'], h)
            n0 = rec.evaluations
            dbops.run_case(fam, impl, rng, rec, 'inload',
                           leaves_only=(impl == 'py' and h % 2 == 1),
                           tagger=_inload_tagger)
            if rec.evaluations > n0:
                rec.ev('pin-checks')
        for v in rec.violations:
            v.setdefault('mode', 'in-load')
        return
    for kind in families.KINDS:
        for h in range(spec['histories']):
            rng = rng_for(spec['seed'], ID, spec['label'], kind, h)
            mode = spec['mode']
            if mode == 'between' and h % 3 == 2:
                mode = 'bare'
            run_history(fam, kind, impl, mode, rng, rec, h)


def ghost_count(conn):
    return sum(1 for o in conn.cached_objects() if o._p_state == GHOST)


def _is_leaf(o):
    n = type(o).__name__.replace('Py', '')
    return n.endswith(('Bucket', 'Set')) and not n.endswith('TreeSet')


def sweep(conn, rng, leaves_only=False, forced_ok=True):
    """One cache sweep. -> number of nodes that became ghosts."""
    before = ghost_count(conn)
    r = rng.random()
    if leaves_only:
        objs = [o for o in conn.cached_objects() if _is_leaf(o)]
        rng.shuffle(objs)
        for o in objs[:rng.randint(1, max(1, len(objs)))]:
            o._p_deactivate()
    elif r < 0.5:
        conn.cache.minimize()
    else:
        objs = conn.cached_objects()
        rng.shuffle(objs)
        for o in objs[:rng.randint(1, max(1, len(objs)))]:
            # the spellings persistent offers an application for "let go
            # of this object's state"; the last two are only equivalent to
            # the first for a node without unsaved changes
            # (_p_invalidate() and `del _p_changed` are the FORCED forms:
            # they are documented to discard the state whatever the object
            # is doing, so they are only used between operations)
            how = rng.randrange(4 if forced_ok else 2)
            if how == 0 or o._p_changed:
                o._p_deactivate()
            elif how == 1:
                o._p_changed = None
            elif how == 2:
                o._p_invalidate()
            else:
                del o._p_changed
    return ghost_count(conn) - before


def bad_calls(fam, kind, rng, present, universe, values):
    """Calls that must fail: bad key / bad value / missing key / unusable
    bound.  -> list of (op, args, kwargs)"""
    is_mapping = kind in families.MAPPING_KINDS
    if fam.kc == 'O':
        badkeys = [families.Plain(), object()]
    elif fam.kc == 'f':
        badkeys = ['xy', b'abc', 5, None]
    else:
        badkeys = ['x', 2 ** 70, -2 ** 70, 1.5, None, b'ab']
    if fam.vc in 'IULQ':
        badvals = ['v', 2 ** 70, 1.5, None]
    elif fam.vc == 'F':
        badvals = ['v', None, b'x']
    elif fam.vc == 's':
        badvals = ['abcdef', b'abc', 7, None]
    else:
        badvals = []
    missing = [k for k in universe if k not in present]
    bk = rng.choice(badkeys)
    out = []
    good = rng.choice(universe)
    if is_mapping:
        v = rng.choice(values)
        out += [('getitem', (bk,), None), ('setitem', (bk, v), None),
                ('setdefault', (bk, v), None), ('delitem', (bk,), None),
                ('pop', (bk,), None),
                ('update', ([(bk, v)],), None)]
        if kind == 'BTree':
            out.append(('insert', (bk, v), None))
        if badvals:
            bv = rng.choice(badvals)
            out += [('setitem', (good, bv), None),
                    ('setdefault', (good, bv), None),
                    ('update', ([(good, bv)],), None)]
            if kind == 'BTree':
                out.append(('insert', (good, bv), None))
            out.append(('byValue', (bv,), None))
        if missing:
            mk = rng.choice(missing)
            out += [('getitem', (mk,), None), ('delitem', (mk,), None),
                    ('pop', (mk,), None)]
        out += [('values', (bk,), None), ('items', (), {'max': bk}),
                ('iteritems', (bk, bk), None)]
    else:
        out += [('add', (bk,), None), ('remove', (bk,), None),
                ('supdate', ([bk],), None)]
        if missing:
            out.append(('remove', (rng.choice(missing),), None))
    out += [('minKey', (bk,), None), ('maxKey', (bk,), None),
            ('keys', (bk,), None), ('keys', (), {'max': bk}),
            ('keys', (good, bk), None)]
    if bk is not None:
        pass
    else:
        # None is "unbounded", not a bad bound
        out = [c for c in out if not (
            c[0] in ('minKey', 'maxKey', 'keys', 'values', 'items',
                     'iteritems'))]
    # unusable bounds: nothing satisfies them
    from ..families import sort_keys
    su = sort_keys(universe)
    if present:
        sp = sort_keys(present)
        above = [k for k in su if k is not None and sp[-1] is not None and
                 k > sp[-1]]
        below = [k for k in su if k is not None and sp[0] is not None and
                 k < sp[0]]
        if above:
            out.append(('minKey', (above[0],), None))
        if below:
            out.append(('maxKey', (below[-1],), None))
    else:
        out += [('minKey', (), None), ('maxKey', (), None),
                ('minKey', (good,), None)]
        out.append(('popitem' if is_mapping else 'spop', (), None))
    # lazy sequence index out of range
    out.append(('keys_index', (10 ** 6,), None))
    rng.shuffle(out)
    return out[:8]


EXTRA_OPS = {
    'byValue': lambda c, v: list(c.byValue(v)),
    'keys_index': lambda c, i: c.keys()[i],
    # range searches and lazy sequences (min, max, excludemin, excludemax)
    'rkeys': lambda c, *a: list(c.keys(*a)),
    'rvalues': lambda c, *a: list(c.values(*a)),
    'ritems': lambda c, *a: list(c.items(*a)),
    'riter': lambda c, *a: list(c.iteritems(*a)),
    'rlen': lambda c, *a: len(c.keys(*a)),
    'rindex': lambda c, i, *a: c.keys(*a)[i],
    'rslice': lambda c, i, j, *a: list(c.keys(*a)[i:j]),
    # ONE lazy sequence object indexed in a non-monotonic order (the cursor
    # moves right and LEFT across leaf boundaries)
    'rwalk': lambda c, idxs, *a: _walk(c.keys(*a), idxs),
    'rwalk_items': lambda c, idxs, *a: _walk(c.items(*a), idxs),
}


def _mutreassign(c, k, box, first, commit=None):
    """v = c[k]; (change v in place); c[k] = v  - the usual way to update a
    mutable value.  The same object is stored again: the container has to
    announce the change all the same.  (The twin gets an equal fresh
    object.)"""
    import copy
    if not first:
        c[k] = box.pop()
        return None
    # (first a private copy, committed: the generated values are shared
    # between entries, and the step that matters must start from a node
    # that is NOT already registered)
    c[k] = copy.deepcopy(c[k])
    commit()
    v = c[k]
    if isinstance(v, list):
        v.append(len(v))
    elif isinstance(v, dict):
        v[len(v)] = 1
    c[k] = v
    box.append(copy.deepcopy(v))
    return None


EXTRA_OPS['mutreassign'] = _mutreassign


def _stepped(c, which, at, pause, idxs, *a):
    """ONE iterator (or lazy sequence) used step by step, with the cache
    swept between two steps: every next() / seq[i] is an operation of its
    own, and what the iterator has still to deliver must not depend on the
    nodes staying loaded."""
    if which == 'iter':
        it = iter(c)
    elif which in ('iterkeys', 'itervalues', 'iteritems'):
        it = getattr(c, which)(*a)
    elif which in ('keys', 'values', 'items'):
        seq = getattr(c, which)(*a)
        if idxs is not None:
            out = []
            for n_, i in enumerate(idxs):
                try:
                    out.append(seq[i])
                except IndexError:
                    out.append('IndexError')
                if n_ in at:
                    pause()
            return out
        it = iter(seq)
    out = []
    for x in it:
        out.append(x)
        if len(out) in at:
            pause()
    return out


EXTRA_OPS['stepped'] = _stepped


def stepped_call(rng, present, universe, is_mapping, is_tree):
    which = ['iter', 'keys']
    if is_mapping:
        which += ['iterkeys', 'itervalues', 'iteritems', 'values', 'items']
    elif is_tree:
        which += ['iterkeys']
    w_ = rng.choice(which)
    n_ = max(1, len(present))
    at = tuple(sorted(set(rng.randint(0, n_) for _ in range(rng.randint(1, 3)))))
    idxs = None
    if is_tree and w_ in ('keys', 'values', 'items') and rng.random() < .5:
        idxs = tuple(rng.randint(-n_ - 1, n_)
                     for _ in range(rng.randint(2, 6)))
    a = ()
    if w_ != 'iter' and rng.random() < .4:
        a = (rng.choice([None] + present[:2] + [rng.choice(universe)]),
             rng.choice([None] + present[-2:] + [rng.choice(universe)]))
    return 'stepped', (w_, at, idxs) + a


def _walk(seq, idxs):
    out = []
    for i in idxs:
        try:
            out.append(seq[i])
        except IndexError:
            out.append('IndexError')
    return out


def _listing(r):
    """Comparable form of the result of a set operation."""
    if r is None:
        return None
    if isinstance(r, tuple):          # weighted ops: (weight, container)
        return (r[0], _listing(r[1]))
    if hasattr(r, 'items') and not isinstance(r, dict):
        return (type(r).__name__.replace('Py', ''), list(r.items()))
    return (type(r).__name__.replace('Py', ''), list(r))


# operations that take the stored container as an OPERAND (its nodes are read
# through the C set-iteration cursors / bulk copies, not through the mapping
# API) and build a fresh result: fn(fam, impl, c, other)
OPERAND_OPS = {
    'o_union': lambda f, i, c, o: _listing(f.fn('union', i)(c, o)),
    'o_union_r': lambda f, i, c, o: _listing(f.fn('union', i)(o, c)),
    'o_intersection': lambda f, i, c, o: _listing(
        f.fn('intersection', i)(c, o)),
    'o_intersection_r': lambda f, i, c, o: _listing(
        f.fn('intersection', i)(o, c)),
    'o_difference': lambda f, i, c, o: _listing(f.fn('difference', i)(c, o)),
    'o_difference_r': lambda f, i, c, o: _listing(
        f.fn('difference', i)(o, c)),
    'o_or': lambda f, i, c, o: _listing(c | o),
    'o_and': lambda f, i, c, o: _listing(c & o),
    'o_sub': lambda f, i, c, o: _listing(c - o),
    'o_multiunion': lambda f, i, c, o: _listing(
        f.fn('multiunion', i)([o, c, o])),
    'o_multiunion1': lambda f, i, c, o: _listing(
        f.fn('multiunion', i)([c])),
    'o_wunion': lambda f, i, c, o: _listing(
        f.fn('weightedUnion', i)(c, o, 1, 0)),
    'o_wunion_r': lambda f, i, c, o: _listing(
        f.fn('weightedUnion', i)(o, c, 0, 1)),
    'o_wintersection': lambda f, i, c, o: _listing(
        f.fn('weightedIntersection', i)(c, o, 1, 0)),
    'o_update_into': lambda f, i, c, o: (o.update(c), _listing(o))[1],
    'o_isdisjoint_r': lambda f, i, c, o: o.isdisjoint(c),
    # (trees have the default persistent repr: address and oid; only the
    # leaf kinds print their contents)
    'o_repr': lambda f, i, c, o: (
        repr(c).replace('Py', ''), None)[
            0 if type(c).__name__.replace('Py', '').endswith(
                ('Bucket', 'Set')) and 'TreeSet' not in type(c).__name__
            else 1],
    # (weights 1/0 above: the stored values include the integer extremes and
    # what happens on overflow is not part of any property)
    'o_byValue': lambda f, i, c, o: list(c.byValue(o)),
    'o_set_index': lambda f, i, c, o: c[o],
    'o_pickle': lambda f, i, c, o: __import__('pickle').loads(
        __import__('pickle').dumps(list(c.keys()))),
}


def operand_call(fam, kind, impl, rng, present, universe, values):
    """-> (op, spec of the other operand) for an operation that reads the
    stored container as an operand."""
    is_mapping = kind in families.MAPPING_KINDS
    ops = ['o_union', 'o_union_r', 'o_intersection', 'o_intersection_r',
           'o_difference', 'o_or', 'o_and', 'o_sub', 'o_repr', 'o_pickle']
    if not is_mapping:
        ops += ['o_difference_r', 'o_update_into', 'o_isdisjoint_r']
    if fam.kc in 'IULQ':
        ops += ['o_multiunion', 'o_multiunion1']
    if fam.vc in 'IULQF':
        ops += ['o_wunion', 'o_wunion_r', 'o_wintersection']
        if is_mapping:
            ops += ['o_byValue'] * 2
    if kind == 'Set':
        ops += ['o_set_index']
    op = rng.choice(ops)
    if op == 'o_byValue':
        vs = [v for v in values if v is not None]
        return op, ('VALUE', rng.choice(vs) if vs else 0)
    if op == 'o_set_index':
        return op, ('VALUE', rng.randint(-len(present) - 1, len(present)))
    ks = [rng.choice(universe) for _ in range(rng.randint(0, 5))]
    if present:
        ks += [rng.choice(present) for _ in range(rng.randint(0, 3))]
    ks = list(dict.fromkeys(ks))
    okind = rng.choice(['Set', 'TreeSet'] + (
        ['Bucket', 'BTree'] if op not in ('o_update_into',
                                          'o_isdisjoint_r') else []))
    if op in ('o_difference_r',) and okind in ('Bucket', 'BTree') and \
            not is_mapping:
        pass
    return op, (okind, ks)


def build_other(fam, impl, ospec, values, rng):
    okind, payload = ospec
    if okind == 'VALUE':
        return payload
    o = fam.cls(okind, impl)()
    if okind in ('Bucket', 'BTree'):
        vs = [v for v in values if v is not None] or [None]
        for n, k in enumerate(payload):
            o[k] = vs[n % len(vs)]
    else:
        for k in payload:
            o.add(k)
    return o


def range_call(rng, w, present, universe, is_mapping, is_tree):
    """A range search whose bounds are taken from the current shape:
    separators, first/last keys of leaves, gaps, None."""
    cands = [None, None]
    cands += present[:1] + present[-1:]
    if w is not None:
        cands += list(w.separators) * 2
        for lk in w.leaf_keys:
            cands += [lk[0], lk[-1]]
    cands += [rng.choice(universe) for _ in range(3)]
    mn, mx = rng.choice(cands), rng.choice(cands)
    args = (mn, mx, rng.random() < .5, rng.random() < .5)
    ops = ['rkeys']
    if is_mapping:
        ops += ['rvalues', 'ritems', 'riter']
    if is_tree:
        ops += ['rlen', 'rindex', 'rslice', 'rwalk', 'rwalk']
        if is_mapping:
            ops += ['rwalk_items']
    op = rng.choice(ops)
    if op in ('rwalk', 'rwalk_items'):
        n_ = max(1, len(present))
        idxs = [rng.randint(-n_ - 1, n_) for _ in range(rng.randint(2, 6))]
        if rng.random() < .5:
            idxs = sorted(idxs, reverse=True)     # right to left
        return op, (tuple(idxs),) + args
    if op == 'rindex':
        return op, (rng.randint(-3, 6),) + args
    if op == 'rslice':
        return op, (rng.randint(-3, 4), rng.randint(-3, 8)) + args
    return op, args


def _tb(e):
    if e is None:
        return None
    import traceback
    return ''.join(traceback.format_exception(type(e), e,
                                              e.__traceback__))[-1500:]


def do_call(c, op, args, kw):
    if op in OPERAND_OPS:
        fam, impl, other = args
        try:
            return ('ok', OPERAND_OPS[op](fam, impl, c, other), None)
        except Exception as e:
            return ('exc', type(e).__name__, e)
    if op in EXTRA_OPS:
        try:
            return ('ok', EXTRA_OPS[op](c, *args), None)
        except Exception as e:
            return ('exc', type(e).__name__, e)
    return call(c, op, args, kw)


def run_history(fam, kind, impl, mode, rng, rec, h):
    is_tree = kind in families.TREE_KINDS
    is_mapping = kind in families.MAPPING_KINDS
    sizes = gen.NODE_SIZES[rng.randrange(len(gen.NODE_SIZES))] \
        if is_tree else None
    if is_tree and h % 5 == 4:
        sizes = None
    storage = minidb.Storage()
    bare = mode == 'bare'
    if bare:
        # a jar without an object cache (minidb.BareJar): persistent then
        # ghostifies along another path (slots are not released for it)
        mode = 'between'
        conn = minidb.BareJar(impl)
        rec.ev(impl + ':bare-jar-history')
    else:
        conn = minidb.Connection(storage, impl)
    c = hist.make_container(fam, kind, impl, sizes)
    t = fam.cls(kind, impl)()          # uncached twin, same implementation
    conn.add(c)
    conn.commit()
    g = gen.HistoryGen(fam, kind, rng, adversarial=0.3)
    if mode == 'in-call':
        g.universe = [FKey(i) for i in range(-10, 14)] + (
            [None] if rng.random() < .5 else [])
    if sizes:
        g.max_leaf = sizes[0]
    log = []
    desc = dict(family=fam.name, kind=kind, impl=impl, sizes=sizes,
                mode='bare' if bare else mode)
    n = rng.randint(40, 120)
    inject.reset()
    state = {'ghosted': 0, 'loads0': 0}

    def fail(mech, **kw):
        d = dict(desc)
        d.update(kw)
        d['history'] = [brief(x, 100) for x in log[-50:]]
        if state.get('f22') and mech in (
                'tree-damaged', 'contents-differ-from-uncached-twin',
                'contents-raised', 'result-differs-from-uncached-twin'):
            d['finding'] = 'F22'
        elif state.get('f34') and mech in (
                'tree-damaged', 'contents-differ-from-uncached-twin',
                'contents-raised', 'result-differs-from-uncached-twin'):
            d['finding'] = 'F34'
        d['pre_embedded'] = state.get('pre_embedded')
        d['pre_sole_key_leaf'] = state.get('pre_sole')
        if False:
            pass
        elif impl == 'py' and mode == 'in-call' and not leaves_only:
            # F16 needs an INTERIOR node ghostified under the running call;
            # histories whose in-call sweeps touch leaves only must hold
            # (88 000 calls / 22 000 such sweeps on the pinned tree: none
            # fails), so nothing is excused there.  And it shows in two
            # situations only (310 of 310 F16 cases in a survey of 600
            # histories): an INSERTION into a tree that is one bucket stored
            # inline in the root (the reloaded root gets a new bucket, the
            # insert goes into the old one), and a DELETION that may empty a
            # bucket (a leaf with exactly one key exists).  An insertion into
            # a multi-bucket tree under the same sweeps holds on the pinned
            # tree and is judged without excuse.
            op_ = kw.get('op')
            inserting = op_ in ('add', 'setitem', 'insert', 'setdefault',
                                'sinsert', 'update', 'supdate', 'ior')
            # (the multi-key removers can first thin a leaf down to one key
            # and then empty it)
            if state.get('pre_embedded') or (
                    not inserting and state.get('pre_sole')) or \
                    op_ in ('ixor', 'isub', 'iand') or op_ is None:
                d['finding'] = 'F16'
        rec.violation(mech, **d)

    def pin_check(op, args, outcome):
        rec.ev('pin-checks')
        st = conn.sticky_objects()
        if c._p_sticky and c not in st:
            st.append(c)
        if st:
            d = {}
            o = st[0]
            if (impl == 'c' and type(o).__name__.endswith(('Bucket', 'Set'))
                    and op in ('minKey', 'maxKey', 'byValue')
                    and outcome[0] == 'exc'):
                d['finding'] = 'F05'
            fail('node-left-pinned', op=op, args=brief(args),
                 outcome=brief(outcome[:2]),
                 pinned=[type(o).__name__ for o in st][:4], **d)
            # clear so that one leak is reported once
            for o in st:
                try:
                    o._p_sticky = False
                except Exception:
                    pass
            return False
        return True


    # in-call mode: every other history sweeps leaves only
    leaves_only = mode == 'in-call' and h % 2 == 1
    desc['leaves_only'] = leaves_only

    def in_call_sweep():
        if rng.random() < 0.25:
            k = sweep(conn, rng, leaves_only, forced_ok=False)
            if k > 0:
                state['ghosted'] += k

    for step in range(n):
        try:
            present = list(t.keys())
            families.sort_keys(present)
        except Exception:
            rec.ev('history-cut-unsortable-contents')
            return
        w = None
        if is_tree:
            try:
                w = walker.walk(t, is_mapping)
            except Exception:
                w = None
        state['pre_embedded'] = bool(w.embedded) if w is not None else None
        state['pre_sole'] = sorted(
            repr(lk[0]) for lk in w.leaf_keys if len(lk) == 1) \
            if w is not None else None
        # --- a deliberately failing call now and then -------------------
        if rng.random() < 0.12:
            for op, args, kw in bad_calls(fam, kind, rng, present,
                                          g.universe, g.values):
                log.append((op, args, kw))
                rec.journal(_srepr((desc, log[-30:])))
                ro = do_call(c, op, args, kw)
                to = do_call(t, op, args, kw)
                rec.evaluations += 1
                if ro[0] == 'exc':
                    rec.ev('failing-call:' + ro[1])
                rec.seen(impl, kind, mode, 'bad:' + op,
                         ro[1] if ro[0] == 'exc' else 'ok')
                if not harness.outcome_eq(ro, to):
                    fail('result-differs-from-uncached-twin', op=op,
                         args=brief(args), observed=brief(ro[:2]),
                         expected=brief(to[:2]))
                    return
                if not pin_check(op, args, ro):
                    pass
                if not eq(harness.contents(c, is_mapping),
                          harness.contents(t, is_mapping)):
                    fail('contents-differ-after-failing-call', op=op,
                         args=brief(args))
                    return
            continue
        r_kind = rng.random()
        mut_keys = []
        if is_mapping and fam.vc == 'O' and mode == 'between' and \
                r_kind > 0.93:
            if w is None or not w.inline_nonroot:
                mut_keys = [k_ for k_, v_ in t.items()
                            if isinstance(v_, (list, dict))]
        if mut_keys:
            op, args = 'mutreassign', (rng.choice(mut_keys),)
            rec.ev(impl + ':mutate-reassign')
        elif r_kind < 0.15:
            op, args = range_call(rng, w, present, g.universe, is_mapping,
                                  is_tree)
        elif r_kind < 0.21 and mode == 'between':
            op, args = stepped_call(rng, present, g.universe, is_mapping,
                                    is_tree)
        elif r_kind < 0.27:
            op, ospec = operand_call(fam, kind, impl, rng, present,
                                     g.universe, g.values)
            args = (ospec,)
        else:
            op, args = g.next_op(w, present)
        log.append((op, args))
        rec.journal(_srepr((desc, log[-30:])))
        if op == 'stepped':
            def pause():
                if sweep(conn, rng) > 0:
                    rec.ev(impl + ':sweep-between-iterator-steps')
            rargs = args[:2] + (pause,) + args[2:]
            targs = args[:2] + ((lambda: None),) + args[2:]
        elif op == 'mutreassign':
            box = []
            rargs = (args[0], box, True, conn.commit)
            targs = (args[0], box, False)
        elif op in OPERAND_OPS:
            # each side gets its own (identical) other operand
            st_ = rng.getstate()
            rargs = (fam, impl, build_other(fam, impl, args[0], g.values,
                                            rng))
            rng.setstate(st_)
            targs = (fam, impl, build_other(fam, impl, args[0], g.values,
                                            rng))
            rec.ev('operand-op')
        else:
            rargs = tuple(gen.materialize(a, fam, impl, c, False)
                          for a in args)
            targs = tuple(gen.materialize(a, fam, impl, t, False)
                          for a in args)
        nghost = 0
        if mode == 'between' and rng.random() < 0.6:
            nghost = sweep(conn, rng)
            if nghost > 0:
                rec.ev('sweep-ghostified:between')
        loads0 = conn.loads
        state['ghosted'] = 0
        conn.op_index += 1
        if mode == 'in-call':
            inject.arm(callback=in_call_sweep)
        # now and then the data manager refuses the first read dependency
        # the call wants to declare: the call must fail cleanly (nothing
        # changed, nothing left pinned)
        refuse = (mode == 'between' and is_tree and op in harness.MUTATING_OPS
                  and op in harness.SINGLE_KEY_OPS and rng.random() < 0.08)
        if refuse:
            conn.fail_read_current = 1
        # a sweep at the n-th LOAD inside the call (every family: no key
        # comparison of user code is needed for the cache to act while an
        # operation is in the middle of its work)
        sweeps0 = conn.incall_sweeps
        if mode == 'between' and not bare and nghost > 0 and not refuse and \
                rng.random() < 0.4:
            conn.sweep_at_setstate = rng.randint(1, 3)
            conn.sweep_leaves_only = impl == 'py'
        try:
            ro = do_call(c, op, rargs, None)
        finally:
            inject.disarm()
            conn.fail_read_current = 0
            conn.sweep_at_setstate = 0
        if conn.incall_sweeps > sweeps0:
            rec.ev(impl + ':sweep-at-load-inside-call')
            rec.ev(impl + ':sweep-at-load-inside-call:' + (
                'write' if op in harness.MUTATING_OPS else 'read'))
        if refuse and ro[0] == 'exc' and ro[1] == 'DMBoom':
            rec.evaluations += 1
            rec.ev(impl + ':read-dependency-refused')
            pin_check(op, args, ro)
            try:
                got = harness.contents(c, is_mapping)
            except Exception as e:
                fail('contents-raised', op=op, detail='%s: %s' % (
                    type(e).__name__, e))
                return
            if not eq(got, harness.contents(t, is_mapping)):
                fail('refused-call-changed-contents', op=op,
                     args=brief(args), observed=brief(got, 300),
                     expected=brief(harness.contents(t, is_mapping), 300))
                return
            errs, _ = hist.structural_checks(c, is_mapping)
            if errs:
                fail('tree-damaged', op=op, args=brief(args),
                     errors=errs[:3], after='refused read dependency')
                return
            continue
        to = do_call(t, op, targs, None)
        rec.evaluations += 1
        if state['ghosted']:
            rec.ev(impl + ':sweep-ghostified:in-call')
            if leaves_only:
                rec.ev(impl + ':sweep-ghostified:in-call:leaves-only')
            rec.ev(impl + ':in-call-sweep:' + op)
            if conn.loads > loads0:
                rec.ev(impl + ':reload-inside-call')
        outcome = ro[1] if ro[0] == 'exc' else 'ok'
        rec.seen(impl, kind, mode, op, outcome,
                 min(max(nghost, state['ghosted']), 2))
        ignore = op in ('update', 'supdate', 'ior', 'iand', 'isub', 'ixor',
                        'clear')
        same = ro[0] == to[0] and (
            ro[1] == to[1] if ro[0] == 'exc' else (ignore or eq(ro[1], to[1])))
        if not same:
            fail('result-differs-from-uncached-twin', op=op, args=brief(args),
                 observed=brief(ro[:2]), expected=brief(to[:2]),
                 detail=brief(ro[2]), tb=_tb(ro[2]))
            return
        pin_check(op, args, ro)
        try:
            got = harness.contents(c, is_mapping)
        except Exception as e:
            fail('contents-raised', op=op, detail='%s: %s' % (
                type(e).__name__, e))
            return
        want = harness.contents(t, is_mapping)
        if not eq(got, want):
            fail('contents-differ-from-uncached-twin', op=op,
                 args=brief(args), observed=brief(got, 300),
                 expected=brief(want, 300))
            return
        if op == 'mutreassign':
            # the change must survive commit + eviction + reload
            if is_tree and walker.walk(c, is_mapping).inline_nonroot:
                state['f22'] = True
            try:
                conn.commit()
            except Exception:
                pass
            if is_tree and minidb.embedded_but_leaf_has_oid(conn, c):
                state['f34'] = True
            conn.cache.minimize()
            try:
                got = harness.contents(c, is_mapping)
            except Exception as e:
                fail('contents-raised', op=op, detail='%s: %s' % (
                    type(e).__name__, e))
                return
            if not eq(got, want):
                fail('contents-differ-from-uncached-twin', op=op,
                     args=brief(args), observed=brief(got, 300),
                     expected=brief(want, 300), after='commit + sweep')
                return
        if is_tree and op in harness.MUTATING_OPS:
            errs, _ = hist.structural_checks(c, is_mapping)
            if errs:
                fail('tree-damaged', op=op, args=brief(args), errors=errs[:3])
                return
        pin_check('contents', (), ('ok', None))
        # commit often so that nodes become evictable again
        if rng.random() < 0.5:
            if is_tree:
                wc = walker.walk(c, is_mapping)
                if wc.inline_nonroot:
                    # committing this shape may store an F22-damaged
                    # database (recorded finding, judged by C04/C06): a
                    # later reload would re-observe it
                    rec.ev('f22-shape-committed')
                    state['f22'] = True
            try:
                conn.commit()
            except Exception as e:
                fail('commit-raised', detail='%s: %s' % (type(e).__name__, e))
                return
            if is_tree and minidb.embedded_but_leaf_has_oid(conn, c):
                rec.ev('f34-condition')
                state['f34'] = True
    if h == 0 and kind == 'BTree':
        rec.sample(dict(desc, history=[brief(x, 80) for x in log[:10]]))
