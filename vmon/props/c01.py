"""C01 - containers behave as a sorted map / sorted set."""
from .. import explore, families, gen, hist
from ..families import INT_RANGES
from ..runner import rng_for

ID = 'C01'
LEVEL = 'exploration'
RULE = ('evaluations = public calls executed in lock-step on the real '
        'container and the reference sorted map/set (result, exception class, '
        'ordered contents, len, bool, iteration compared after every call); '
        'distinct_nontrivial = distinct (impl, kind, operation, outcome, '
        'tree-shape class [height, embedded, single-child root, stale '
        'separator, #leaves, one-leaf node]) tuples observed')
ASSUMPTIONS = ['the 150-line reference model (vmon/model.py) states what a '
               'sorted dict/set does', 'histories are sampled, not enumerated']

TREE_EVENTS = ['leaf_split', 'interior_split', 'root_split', 'unlink_first',
               'unlink_middle', 'unlink_last', 'interior_removed',
               'height>=3', 'clear_multilevel', 'single_child_root']


def must_see(tier):
    m = {}
    for impl in ('c', 'py'):
        for e in TREE_EVENTS:
            m['%s:%s' % (impl, e)] = 1
    for op in ('ior', 'iand', 'isub', 'ixor', 'popitem', 'setdefault',
               'insert', 'spop', 'discard'):
        m['op:' + op] = 1
    m['none-key-present'] = 1
    m['int-extreme-present'] = 1
    m['single-key-raise-unchanged'] = 1
    m['explore:closed'] = 4
    m['explore:states'] = 5000
    for impl in ('c', 'py'):
        m[impl + ':stored:sweep'] = 300
        m[impl + ':read-dependency-refused'] = 20
        m[impl + ':load-refused'] = 20
    m['py:registration-refused'] = 10
    return m


def plan(tier, seed):
    specs = []
    nh = 36 if tier == 'quick' else 1200
    for fam in families.FAMILY_NAMES:
        for impl in ('c', 'py'):
            specs.append(dict(label='%s-%s' % (fam, impl), family=fam,
                              impl=impl, histories=nh, seed=seed, tier=tier,
                              variant='mon', timeout=900 if tier == 'quick'
                              else 7200))
    if tier == 'thorough':
        for fam in families.FAMILY_NAMES:
            specs.append(dict(label='%s-c-asan' % fam, family=fam, impl='c',
                              histories=150, seed=seed + 1000, tier=tier,
                              variant='asan', timeout=7200))
    # systematic: every operation in every reachable state of a small
    # universe (vmon/explore.py); the families differ from C03's
    specs += explore.specs_for(ID, tier, seed, ['fs', 'QO'],
                               ['fs', 'QO', 'UU', 'OL'])
    return specs


def run_shard(spec, rec):
    if spec.get('explore'):
        return explore.run_shard(ID, spec, rec)
    fam = families.get(spec['family'])
    impl = spec['impl']
    for kind in families.KINDS:
        for h in range(spec['histories']):
            rng = rng_for(spec['seed'], ID, spec['family'], impl, kind, h)
            sizes = None
            via_sub = False
            if kind in families.TREE_KINDS:
                if h % 7 != 6:
                    sizes = gen.NODE_SIZES[h % len(gen.NODE_SIZES)]
                    via_sub = (h % 3 == 1)
            stored = h % 5 == 3
            if stored:
                via_sub = False      # (MiniDB resolves stock classes only)
            ls = hist.LockStep(fam, kind, impl, rng, rec, sizes=sizes,
                               via_subclass=via_sub, structure=False)
            if stored:
                # the same oracle on a container that lives in a database
                hist.attach_db(ls, rec)
            if impl == 'py' and fam.vc == 'F' and h % 6:
                # F08 (recorded finding: Py keeps doubles) would end almost
                # every history at its first float; most histories therefore
                # use values that are exact in single precision
                ls.g.values = [v for v in ls.g.values
                               if families.f32(v) == v]
            if fam.kc in INT_RANGES:
                lo, hi = INT_RANGES[fam.kc]

                def hook(ls, op, args, lo=lo, hi=hi):
                    s = ls.m._keys()
                    if lo in s or hi in s:
                        rec.ev('int-extreme-present')
                ls.hooks_after.append(hook)
            n = rng.randint(30, 140) if sizes else rng.randint(20, 60)
            ok = ls.run(n, p_bad=0.06, p_alias=0.05)
            if h == 0 and kind == 'BTree' and ok:
                rec.sample(dict(family=fam.name, kind=kind, impl=impl,
                                sizes=sizes,
                                history=[hist.brief(x, 80)
                                         for x in ls.log[:12]],
                                final=hist.brief(ls.m.contents(), 200)))
