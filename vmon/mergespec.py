"""An independent specification of leaf conflict resolution (C07, C08).

States are plain dicts (key -> value; for sets the value is None).  The
function says whether the three-way merge must be refused (and which reason
codes are acceptable for that refusal) or what the merged contents are.
Derived from the property text and Interfaces.BTreesConflictError, not from
the merge code."""
from .families import sort_keys
from .harness import eq
from .model import klt

OVERLAP = frozenset([1, 2, 3, 4, 5, 6, 7, 8, 9, 13])


def touched(old, side):
    t = set()
    for k in side:
        if k not in old:
            t.add(k)            # inserted
        elif not eq(old[k], side[k]):
            t.add(k)            # value changed
    for k in old:
        if k not in side:
            t.add(k)            # deleted
    return t


def kmin(d):
    return sort_keys(list(d))[0]


def decide(old, com, new, links=(None, None, None), multi=False):
    """-> ('refuse', acceptable_reason_codes) | ('merge', {key: value})"""
    if multi:
        return ('refuse', frozenset([11]))
    if links[1] is not links[0] or links[2] is not links[0]:
        return ('refuse', frozenset([0]))
    if not com or not new:
        return ('refuse', frozenset([12]))
    tc, tn = touched(old, com), touched(old, new)
    refuse = set()
    if tc & tn:
        refuse |= OVERLAP
    if old:
        m = kmin(old)
        if klt(m, kmin(com)) or klt(m, kmin(new)):
            refuse |= OVERLAP
    if refuse:
        return ('refuse', frozenset(refuse))
    result = dict(old)
    for side, t in ((com, tc), (new, tn)):
        for k in t:
            if k in side:
                result[k] = side[k]
            else:
                del result[k]
    if not result:
        return ('refuse', frozenset([10]))
    return ('merge', result)
