"""Call-site wrapper shared by all behavioural monitors: applies one named
operation to a real container or to the reference model and returns a
normalised outcome.  Monitors wrap the *call site* so that the C types (which
cannot be decorated) and the Python types get the same observability."""
import math
import operator

MISSING = ('<missing>',)

SINGLE_KEY_OPS = frozenset([
    'setitem', 'delitem', 'insert', 'setdefault', 'pop', 'popd', 'get',
    'getd', 'getitem', 'contains', 'has_key', 'add', 'remove', 'discard',
    'sinsert'])

MUTATING_OPS = frozenset([
    'setitem', 'delitem', 'insert', 'setdefault', 'pop', 'popd', 'popitem',
    'update', 'clear', 'add', 'remove', 'discard', 'sinsert', 'spop',
    'supdate', 'ior', 'iand', 'isub', 'ixor'])


def _ior(c, o):
    c |= o
    return None


def _iand(c, o):
    c &= o
    return None


def _isub(c, o):
    c -= o
    return None


def _ixor(c, o):
    c ^= o
    return None


OPS = {
    # mappings
    'setitem': lambda c, k, v: c.__setitem__(k, v),
    'delitem': lambda c, k: c.__delitem__(k),
    'insert': lambda c, k, v: c.insert(k, v),
    'setdefault': lambda c, k, v: c.setdefault(k, v),
    'pop': lambda c, k: c.pop(k),
    'popd': lambda c, k, d: c.pop(k, d),
    'popitem': lambda c: c.popitem(),
    'update': lambda c, items: (c.update(items), None)[1],
    'clear': lambda c: c.clear(),
    'get': lambda c, k: c.get(k),
    'getd': lambda c, k, d: c.get(k, d),
    'getitem': lambda c, k: c[k],
    'contains': lambda c, k: k in c,
    'has_key': lambda c, k: bool(c.has_key(k)),
    'len': lambda c: len(c),
    'bool': lambda c: bool(c),
    'iter': lambda c: list(iter(c)),
    'keys': lambda c, *a, **kw: list(c.keys(*a, **kw)),
    'values': lambda c, *a, **kw: list(c.values(*a, **kw)),
    'items': lambda c, *a, **kw: list(c.items(*a, **kw)),
    'iterkeys': lambda c, *a, **kw: list(c.iterkeys(*a, **kw)),
    'itervalues': lambda c, *a, **kw: list(c.itervalues(*a, **kw)),
    'iteritems': lambda c, *a, **kw: list(c.iteritems(*a, **kw)),
    'minKey': lambda c, *a: c.minKey(*a),
    'maxKey': lambda c, *a: c.maxKey(*a),
    # sets
    'add': lambda c, k: c.add(k),
    'sinsert': lambda c, k: c.insert(k),
    'remove': lambda c, k: c.remove(k),
    'discard': lambda c, k: c.discard(k),
    'spop': lambda c: c.pop(),
    'supdate': lambda c, it: c.update(it),
    'isdisjoint': lambda c, it: c.isdisjoint(it),
    'sindex': lambda c, i: c[i],        # Set only: IKeySequence indexing
    'ior': _ior, 'iand': _iand, 'isub': _isub, 'ixor': _ixor,
}


def call(c, op, args=(), kwargs=None):
    """-> ('ok', value) | ('exc', ExceptionClassName)"""
    try:
        r = OPS[op](c, *args, **(kwargs or {}))
    except Exception as e:
        return ('exc', type(e).__name__, e)
    return ('ok', r, None)


def exc_class(name):
    import builtins
    return getattr(builtins, name, None)


def same_float(a, b):
    if isinstance(a, float) and isinstance(b, float):
        if math.isnan(a) and math.isnan(b):
            return True
        return a == b and math.copysign(1, a) == math.copysign(1, b)
    return a == b


def eq(a, b):
    """== with nan == nan, recursing into lists/tuples."""
    if isinstance(a, float) or isinstance(b, float):
        if isinstance(a, float) and isinstance(b, float):
            if math.isnan(a) or math.isnan(b):
                return math.isnan(a) and math.isnan(b)
        try:
            return a == b
        except Exception:
            return False
    if isinstance(a, (list, tuple)) and isinstance(b, (list, tuple)):
        if len(a) != len(b):
            return False
        return all(eq(x, y) for x, y in zip(a, b))
    if type(a).__name__ == 'Plain' and type(b).__name__ == 'Plain':
        # default-comparison objects (hostile data): equal by identity only,
        # which a trip through a database does not preserve; as VALUES any
        # two of them stand for the same datum
        return True
    try:
        return bool(a == b)
    except Exception:
        return a is b


def outcome_eq(o1, o2, exc_by_class=True):
    if o1[0] != o2[0]:
        return False
    if o1[0] == 'exc':
        return o1[1] == o2[1]
    return eq(o1[1], o2[1])


def contents(c, is_mapping):
    if is_mapping:
        return list(c.items())
    return list(c.keys())


def safe_repr(x):
    """repr() that also works for data holding an int beyond CPython's
    4300-digit limit for str() (the limit is lifted for this one call only:
    the code under test must keep meeting it)."""
    try:
        return repr(x)
    except ValueError:
        import sys
        old = sys.get_int_max_str_digits()
        sys.set_int_max_str_digits(0)
        try:
            return repr(x)
        finally:
            sys.set_int_max_str_digits(old)


def brief(x, n=200):
    r = safe_repr(x)
    return r if len(r) <= n else r[:n] + '...'


def set_node_sizes(cls, leaf, internal):
    """Configure node sizes on the class itself (process-global)."""
    cls.max_leaf_size = leaf
    cls.max_internal_size = internal


def subclass_with_sizes(cls, leaf, internal):
    return type(cls)(cls.__name__ + 'Sub', (cls,),
                     dict(max_leaf_size=leaf, max_internal_size=internal))
