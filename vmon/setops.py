"""Operand construction shared by C10, C11, C12."""
from . import corpus, gen, harness
from .families import sort_keys

CONTAINER_KINDS = ('Set', 'TreeSet', 'Bucket', 'BTree')
ITERABLE_KINDS = ('list', 'shuffled', 'dups', 'tuple', 'generator', 'pyset',
                  'dict', 'range', 'other-impl', 'keys-view', 'values-view')


_SUBS = {}


def subclass_of(cls):
    """An application subclass (no new behaviour) of a container class."""
    if cls not in _SUBS:
        _SUBS[cls] = type(cls)(cls.__name__ + 'Sub', (cls,), {})
    return _SUBS[cls]


def make_container(fam, kind, impl, keys, values, rng, sizes=None,
                   pool=None, subclass=False):
    """A container of `kind` holding `keys` (mapping kinds: random values),
    built through the public API so that trees have real shapes.

    With a `pool` of further keys, half of the trees are first grown with
    the pool's keys as well and then thinned down to `keys` by deletions
    (ascending, descending or random order): roots with a single interior
    child, emptied and unlinked leaves, separators that are only lower
    bounds - the shapes only a history with deletions reaches."""
    cls = fam.cls(kind, impl)
    if sizes and kind in ('BTree', 'TreeSet'):
        harness.set_node_sizes(cls, *sizes)
    if subclass:
        # (an instance of an application subclass is as good an operand as
        # an instance of the class itself)
        cls = subclass_of(cls)
    c = cls()
    ks = list(keys)
    rng.shuffle(ks)
    vals = {}
    is_map = kind in ('Bucket', 'BTree')
    extras = []
    if pool and kind in ('BTree', 'TreeSet') and rng.random() < .5:
        have = set(ks)
        extras = list(dict.fromkeys(k for k in pool if k not in have))
        if extras:
            allk = ks + extras
            rng.shuffle(allk)
            for k in allk:
                if k in have:
                    continue
                if is_map:
                    c[k] = rng.choice(values)
                else:
                    c.add(k)
    if is_map:
        for k in ks:
            v = rng.choice(values)
            c[k] = v
            vals[k] = fam.norm_val(v)
    else:
        for k in ks:
            c.add(k)
    if extras:
        order = rng.choice(['asc', 'desc', 'random'])
        if order == 'random':
            rng.shuffle(extras)
        else:
            extras = sort_keys(extras)
            if order == 'desc':
                extras.reverse()
        for k in extras:
            if is_map:
                del c[k]
            else:
                c.remove(k)
    return c, vals


def make_iterable(how, keys, rng, fam, impl):
    """-> (object, keys_as_list, has_duplicates)"""
    ks = list(keys)
    if how == 'list':
        return sort_keys(ks), ks, False
    if how == 'shuffled':
        rng.shuffle(ks)
        return list(ks), ks, False
    if how == 'dups':
        d = ks + [rng.choice(ks) for _ in range(rng.randint(1, 4))] if ks \
            else []
        rng.shuffle(d)
        return d, ks, bool(ks)
    if how == 'tuple':
        rng.shuffle(ks)
        return tuple(ks), ks, False
    if how == 'generator':
        rng.shuffle(ks)
        return (k for k in list(ks)), ks, False
    if how == 'pyset':
        return set(ks), ks, False
    if how == 'dict':
        return {k: 1 for k in ks}, ks, False
    if how == 'range':
        if fam.kc in 'IULQ' and ks:
            lo = min(ks)
            n = rng.randint(0, 8)
            from .families import INT_RANGES
            hi = INT_RANGES[fam.kc][1]
            r = range(lo, min(lo + n, hi + 1))
            return r, list(r), False
        return sort_keys(ks), ks, False
    if how == 'keys-view':
        # the lazy keys() sequence of a tree / the key list of a bucket
        kind = rng.choice(CONTAINER_KINDS)
        c, _ = make_container(fam, kind, impl, ks, fam.values(rng), rng)
        return c.keys(), ks, False
    if how == 'values-view':
        # values() of a mapping whose VALUES are our keys, in no key order
        if ks and all(fam.val_ok(k) and k is not None for k in ks) and \
                fam.vc != 'F':
            kind = rng.choice(('BTree', 'Bucket'))
            cls = fam.cls(kind, impl)
            m = cls()
            outer = [k for k in fam.key_universe(rng, n=len(ks) + 6)
                     if k is not None][:len(ks)]
            if len(outer) == len(ks):
                vs = list(ks)
                rng.shuffle(vs)
                for k, v in zip(outer, vs):
                    m[k] = v
                return m.values(), ks, False
        rng.shuffle(ks)
        return list(ks), ks, False
    if how == 'other-impl':
        other = 'py' if impl == 'c' else 'c'
        kind = rng.choice(CONTAINER_KINDS)
        c, _ = make_container(fam, kind, other, ks,
                              fam.values(rng), rng)
        return c, ks, False
    raise AssertionError(how)


def snapshot(obj):
    """Contents of an operand, for the 'operands unchanged' check."""
    try:
        if hasattr(obj, 'items') and not isinstance(obj, dict):
            return ('items', list(obj.items()))
        if isinstance(obj, (list, tuple, set, dict, range)):
            return ('plain', repr(obj))
        if hasattr(obj, 'keys'):
            return ('keys', list(obj.keys()))
    except Exception:
        pass
    return None


def kind_of(obj, fam):
    """'Set' / 'Bucket' / ... of a result, regardless of implementation."""
    n = type(obj).__name__
    if n.endswith('Py'):
        n = n[:-2]
    if n.startswith(fam.name):
        return n[len(fam.name):]
    return n


def store_and_ghostify(objs, rec=None, label=''):
    """Put the BTrees containers among `objs` into a MiniDB (one connection
    per implementation), commit and sweep the caches, so that the operation
    that follows meets its operands the way it does in a real database: as
    ghosts whose nodes are loaded on demand.  Returns the connections (the
    caller keeps them alive for the duration of the operation) and the number
    of objects that were ghosts afterwards.

    A tree with the F22/F34 shape (a node whose only leaf has no oid) would
    come back damaged from the database; those operands are left in memory.
    """
    from . import minidb, walker
    conns = {}
    seen = set()
    for o in objs:
        n = type(o).__name__
        if not hasattr(o, '_p_jar') or id(o) in seen:
            continue
        seen.add(id(o))
        if o._p_jar is not None:
            continue
        impl = 'py' if n.endswith('Py') else 'c'
        base = n[:-2] if impl == 'py' else n
        if not base.endswith(('BTree', 'TreeSet', 'Bucket', 'Set')):
            continue
        if base.endswith(('BTree', 'TreeSet')):
            try:
                w = walker.walk(o, base.endswith('BTree'))
            except Exception:
                continue
            if w.inline_nonroot:
                if rec is not None:
                    rec.ev('ghost-operand-skipped:f22-shape')
                continue
        if impl not in conns:
            conns[impl] = minidb.Connection(minidb.Storage(), impl)
        conns[impl].add(o)
    nghost = 0
    for impl, conn in conns.items():
        conn.commit()
        conn.cache.minimize()
        nghost += sum(1 for x in conn.cached_objects() if x._p_state == -1)
    if rec is not None and nghost:
        rec.ev('%sghost-operands' % label)
    return list(conns.values()), nghost
