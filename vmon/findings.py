"""Known findings: classifiers keyed on mechanism (DESIGN 4).

known_findings.json is committed and never written at run time.  Entries with
status "fixed" match nothing.
"""
import json
import os

_PATH = os.path.join(os.path.dirname(os.path.dirname(os.path.abspath(
    __file__))), 'known_findings.json')


def _load():
    try:
        with open(_PATH) as fh:
            return json.load(fh)
    except FileNotFoundError:
        return {'findings': []}


_DB = None


def db():
    global _DB
    if _DB is None:
        _DB = _load()
    return _DB


def known_ids(pid):
    return [f['id'] for f in db()['findings']
            if f.get('status') == 'known' and pid in f['properties']]


def describe(fid):
    for f in db()['findings']:
        if f['id'] == fid:
            return f['what']
    return '?'


def classify(pid, v):
    """Return the id of the known finding this violation is an instance of,
    or None.  Matching is by the mechanism tag the monitor computed from the
    *observed behaviour* (see each props module) plus the match block."""
    tag = v.get('finding')
    if not tag:
        return None
    for f in db()['findings']:
        if f['id'] != tag or f.get('status') != 'known':
            continue
        if pid not in f['properties']:
            continue
        m = f.get('match', {})
        ok = True
        for k, want in m.items():
            have = v.get(k)
            if isinstance(want, list):
                if have not in want:
                    ok = False
            elif have != want:
                ok = False
        if ok:
            return tag
    return None


# ---------------------------------------------------------------------------
# diagnosers: decide, from the *observed behaviour*, which mechanism a
# violation is an instance of.  They only attach a tag; whether the tag is
# accepted as a known finding is decided by classify() against the committed
# known_findings.json (a "fixed" entry accepts nothing).

def _f32_equal(got, want):
    from .families import f32
    from .harness import eq

    def rnd(x):
        if isinstance(x, float):
            try:
                return f32(x)
            except OverflowError:
                return float('inf') if x > 0 else float('-inf')
        if isinstance(x, (list, tuple)):
            return type(x)(rnd(y) for y in x)
        return x
    return eq(rnd(got), want)


def eq_key(a, b):
    try:
        return type(a) is type(b) and a == b
    except Exception:
        return a is b


def diagnose_hist(ls, mechanism, raw):
    from .model import klt
    op = raw.get('op')
    ro, mo = raw.get('ro'), raw.get('mo')
    walk = raw.get('walk')
    impl = ls.impl
    if mechanism == 'result-mismatch' and ro and mo:
        # F03: Py tree minKey(b), b in the gap after a leaf's last key
        if (impl == 'py' and ls.is_tree and op == 'minKey' and raw['args']
                and ro[:2] == ('exc', 'ValueError') and mo[0] == 'ok'
                and walk is not None):
            b = raw['args'][0]
            lk = walk.leaf_keys
            for a, nxt in zip(lk, lk[1:]):
                if klt(a[-1], b) and klt(b, nxt[0]) and mo[1] == nxt[0]:
                    return 'F03'
        # F25: Py Bucket/Set minKey()/maxKey() on an empty container
        if (impl == 'py' and not ls.is_tree and op in ('minKey', 'maxKey')
                and (not raw['args'] or raw['args'] == (None,))
                and not raw['present']
                and ro[:2] == ('exc', 'IndexError')
                and mo[:2] == ('exc', 'ValueError')):
            return 'F25'
        # F26: Py in-place &= with a plain iterable holding None and others
        # (for a one-shot iterator operand the model's copy of the operand
        # tells what it held)
        operand = raw['args'][0] if raw.get('args') else None
        if not isinstance(operand, (list, tuple)) and raw.get('margs') and \
                type(operand).__name__ in ('list_iterator', 'generator',
                                           '_TreeItems', 'TreeItems'):
            # (a one-shot iterator, or the lazy key sequence of a tree: the
            # model's copy of the operand tells what it held)
            operand = raw['margs'][0]
        if (impl == 'py' and op == 'iand' and ro[:2] == ('exc', 'TypeError')
                and mo[0] == 'ok' and isinstance(operand, (list, tuple))
                and None in operand and len(operand) >= 2):
            # (None next to any other element, another None included: the
            # plain sort then evaluates None < x)
            return 'F26'
        if (impl == 'py' and ls.fam.vc == 'F' and ro[0] == 'ok' == mo[0]
                and _f32_equal(ro[1], mo[1])):
            return 'F08'
    if mechanism == 'structure-after-refused-load' and walk is not None:
        # F38: the call deletes the ONLY key of a leaf of a tree with more
        # than one leaf: the key is gone from the leaf before the nodes
        # needed to unlink the emptied leaf are loaded
        if op in ('delitem', 'pop', 'popd', 'remove', 'discard') and \
                len(walk.leaf_keys) > 1 and raw.get('args'):
            k = raw['args'][0]
            for lk in walk.leaf_keys:
                if len(lk) == 1 and eq_key(lk[0], k):
                    return 'F38'
    if mechanism == 'contents-mismatch':
        if (impl == 'py' and ls.fam.vc == 'F' and 'got' in raw
                and _f32_equal(raw['got'], raw['want'])):
            return 'F08'
    return None
