"""Independent structure walker (DESIGN 3.3).

Uses only __getstate__() (recursively), _firstbucket and _next, so it works
for the C and the Python implementation alike.
"""
from .model import kle, klt

_NOBOUND = object()


class Walk:
    __slots__ = ('errors', 'leaf_keys', 'leaf_objs', 'shape', 'height',
                 'embedded', 'stale_seps', 'single_child_root', 'n_interior',
                 'keys', 'values', 'is_mapping', 'one_leaf_nodes',
                 'max_leaf_fill', 'max_int_fill', 'root_size', 'interior_objs',
                 'separators', 'leaf_paths', 'inline_nonroot', 'uneven_depth')

    def ok(self):
        return not self.errors

    def release(self):
        """Forget the node objects (they keep evicted nodes alive and their
        reference counts up); the data of the walk stays."""
        self.leaf_objs = []
        self.interior_objs = []
        return self


def _activate(o):
    try:
        o._p_activate()
    except AttributeError:
        pass


def _in_interval(k, lo, hi):
    if lo is not _NOBOUND and not kle(lo, k):
        return False
    if hi is not _NOBOUND and not klt(k, hi):
        return False
    return True


def walk(tree, is_mapping, check_sizes=True, tree_api_filled=True):
    """Walk `tree` (BTree/TreeSet of either implementation)."""
    w = Walk()
    w.errors = []
    w.leaf_keys = []     # list of key lists in descent order
    w.leaf_objs = []     # leaf objects in descent order (None when embedded)
    w.leaf_paths = []
    w.interior_objs = []
    w.keys = []
    w.values = []
    w.is_mapping = is_mapping
    w.embedded = False
    w.stale_seps = 0
    w.single_child_root = False
    w.n_interior = 0
    w.uneven_depth = False
    w.inline_nonroot = 0   # non-root nodes whose state is the 1-tuple form
    w.one_leaf_nodes = 0   # non-root interior nodes with exactly one leaf child
    w.max_leaf_fill = 0
    w.max_int_fill = 0
    w.root_size = 0
    w.separators = []
    cls = type(tree)
    err = w.errors.append
    _activate(tree)
    state = tree.__getstate__()
    fb = tree._firstbucket
    if state is None:
        w.shape = ()
        w.height = 0
        if fb is not None:
            err('empty tree has a firstbucket')
        return w

    def leaf_from_state(st, obj, lo, hi, path):
        flat = st[0]
        if is_mapping:
            if len(flat) % 2:
                err('odd leaf state at %r' % (path,))
            ks = list(flat[0::2])
            vs = list(flat[1::2])
        else:
            ks = list(flat)
            vs = []
        if not ks:
            err('empty leaf at %r' % (path,))
        for a, b in zip(ks, ks[1:]):
            if not klt(a, b):
                err('leaf keys not strictly increasing at %r: %r %r' % (
                    path, a, b))
        for k in ks:
            if not _in_interval(k, lo, hi):
                err('key %r outside interval at %r' % (k, path))
        w.leaf_keys.append(ks)
        w.leaf_objs.append(obj)
        w.leaf_paths.append(path)
        w.keys.extend(ks)
        w.values.extend(vs)
        if len(ks) > w.max_leaf_fill:
            w.max_leaf_fill = len(ks)
        return len(ks)

    def node(obj, st, lo, hi, path, is_root):
        """returns (shape, height, min_key_of_subtree)"""
        w.n_interior += 1
        w.interior_objs.append(obj)
        if len(st) == 1:
            # embedded single leaf
            if not is_root:
                w.one_leaf_nodes += 1
                w.inline_nonroot += 1
            w.embedded = w.embedded or is_root
            inner = st[0]
            if not (isinstance(inner, tuple) and len(inner) == 1):
                err('malformed embedded state at %r' % (path,))
                return (0,), 1
            if not (isinstance(inner[0], tuple) and inner[0] and
                    isinstance(inner[0][0], tuple)):
                err('malformed embedded leaf state at %r' % (path,))
                return (0,), 1
            n = leaf_from_state(inner[0], None, lo, hi, path + (0,))
            if is_root:
                w.root_size = 1
            return (n,), 1
        data, first = st
        children = list(data[0::2])
        seps = list(data[1::2])
        w.separators.extend(seps)
        if not children:
            err('interior node without children at %r' % (path,))
            return (), 1
        if is_root:
            w.root_size = len(children)
            if len(children) == 1:
                w.single_child_root = True
        else:
            if len(children) > w.max_int_fill:
                w.max_int_fill = len(children)
        kinds = set(type(c) is cls for c in children)
        if len(kinds) != 1:
            err('children of mixed kinds at %r' % (path,))
        for a, b in zip(seps, seps[1:]):
            if not klt(a, b):
                err('separators not increasing at %r' % (path,))
        for s in seps:
            if not _in_interval(s, lo, hi):
                err('separator %r outside interval at %r' % (s, path))
        shapes = []
        heights = set()
        for i, c in enumerate(children):
            clo = seps[i - 1] if i > 0 else lo
            chi = seps[i] if i < len(seps) else hi
            _activate(c)
            nleaf_before = len(w.leaf_keys)
            if type(c) is cls:
                cst = c.__getstate__()
                if cst is None:
                    err('empty interior child at %r' % (path + (i,),))
                    shapes.append(())
                    heights.add(1)
                    continue
                sh, h = node(c, cst, clo, chi, path + (i,), False)
                shapes.append(sh)
                heights.add(h)
            else:
                cst = c.__getstate__()
                n = leaf_from_state(cst, c, clo, chi, path + (i,))
                shapes.append(n)
                heights.add(0)
            if i > 0 and len(w.leaf_keys) > nleaf_before:
                lk = w.leaf_keys[nleaf_before]
                if lk and lk[0] != seps[i - 1]:
                    w.stale_seps += 1
        if len(heights) != 1:
            # not an invariant any property names (search stays correct and
            # the package's checkers accept it); it arises after a split
            # that could not get memory.  Recorded, not an error.
            w.uneven_depth = True
        if (not is_root and len(children) == 1 and type(children[0]) is not cls):
            w.one_leaf_nodes += 1
        return tuple(shapes), max(heights) + 1

    w.shape, w.height = node(tree, state, _NOBOUND, _NOBOUND, (), True)

    # keys increasing across the whole descent
    for a, b in zip(w.keys, w.keys[1:]):
        if not klt(a, b):
            err('keys not increasing across leaves: %r %r' % (a, b))
            break

    # chain
    chain = []
    seen = set()
    b = fb
    while b is not None:
        if id(b) in seen:
            err('cycle in leaf chain')
            break
        seen.add(id(b))
        chain.append(b)
        _activate(b)
        b = b._next
        if len(chain) > len(w.leaf_keys) + 5:
            err('leaf chain longer than descent (%d > %d)' % (
                len(chain), len(w.leaf_keys)))
            break
    if fb is None:
        err('non-empty tree without firstbucket')
    if w.embedded:
        if len(chain) != 1:
            err('embedded tree with chain length %d' % len(chain))
        else:
            if list(chain[0].keys()) != w.leaf_keys[0]:
                err('embedded leaf differs from firstbucket')
    else:
        objs = w.leaf_objs
        if None in objs:
            # a non-root node pickles its single oid-less leaf inline (F22);
            # identity comparison is impossible for those: compare by keys
            ck = [list(c.keys()) for c in chain]
            if ck != w.leaf_keys:
                err('leaf chain differs from descent (by keys)')
        else:
            if len(chain) != len(objs) or any(
                    a is not b for a, b in zip(chain, objs)):
                err('leaf chain differs from descent: chain %d leaves, '
                    'descent %d leaves' % (len(chain), len(objs)))

    if check_sizes and tree_api_filled:
        mls = cls.max_leaf_size
        mis = cls.max_internal_size
        if w.max_leaf_fill > mls:
            err('leaf with %d > max_leaf_size %d keys' % (w.max_leaf_fill, mls))
        if w.max_int_fill > mis:
            err('interior node with %d > max_internal_size %d children' % (
                w.max_int_fill, mis))
        if w.root_size >= 2 * mis and w.root_size > 1:
            err('root with %d >= 2*max_internal_size children' % w.root_size)
    return w


def shape_class(w):
    """A coarse, hashable description of a tree shape."""
    return (w.height, w.embedded, w.single_child_root, w.stale_seps > 0,
            min(len(w.leaf_keys), 6), w.one_leaf_nodes > 0)


def count_leaves(shape):
    if isinstance(shape, int):
        return 1
    return sum(count_leaves(s) for s in shape)


def diff_events(before, after):
    """Classify the structural event between two walks (same tree)."""
    ev = set()
    if before is None or after is None:
        return ev
    nb, na = len(before.leaf_keys), len(after.leaf_keys)
    if na > nb:
        ev.add('leaf_split')
    if na < nb:
        # which leaf went away?
        bo = [id(o) for o in before.leaf_objs]
        ao = set(id(o) for o in after.leaf_objs)
        gone = [i for i, o in enumerate(bo) if o not in ao]
        if na == 0:
            ev.add('emptied')
        for i in gone:
            if na == 0:
                break
            if i == 0:
                ev.add('unlink_first')
            elif i == nb - 1:
                ev.add('unlink_last')
            else:
                ev.add('unlink_middle')
    if after.height > before.height:
        ev.add('root_split' if before.height >= 1 else 'first_leaf')
    if after.n_interior > before.n_interior and before.height >= 1:
        ev.add('interior_split')
    if after.n_interior < before.n_interior and after.height >= 1:
        ev.add('interior_removed')
    if before.embedded and not after.embedded and after.height >= 1:
        ev.add('embedded_to_external')
    if after.stale_seps > before.stale_seps:
        ev.add('stale_separator')
    if (before.leaf_objs and after.leaf_objs and
            before.leaf_objs[0] is not after.leaf_objs[0] and
            before.height >= 2 and 'unlink_first' in ev):
        ev.add('firstbucket_handoff_deep')
    if na == nb and nb and after.separators != before.separators:
        ev.add('separator_refresh')
    return ev
