"""Shard runner, verdicts, evidence (DESIGN 2.2, 2.3, 4)."""
import hashlib
import importlib
import json
import os
import random
import shutil
import subprocess
import sys
import tempfile
import time
import traceback
from concurrent.futures import ThreadPoolExecutor

from . import build
from . import findings

VERIF = build.VERIF
# evidence/ and replays/ go here (redirected for runs against scratch copies)
OUT = os.environ.get('VMON_OUT', VERIF)
PY = build.PY

from .harness import safe_repr  # noqa: E402


def rng_for(seed, *parts):
    h = hashlib.sha256(('/'.join(str(p) for p in (seed,) + parts)).encode())
    return random.Random(int.from_bytes(h.digest()[:8], 'big'))


def prop_module(pid):
    return importlib.import_module('vmon.props.%s' % pid.lower())


# ---------------------------------------------------------------------------
# worker side

class Recorder:
    """What a shard reports back."""

    def __init__(self, spec):
        self.spec = spec
        self.evaluations = 0
        self.distinct = set()
        self.events = {}
        self.violations = []
        self.samples = []
        self.notes = {}
        self._journal = None
        jp = os.environ.get('VMON_JOURNAL')
        if jp:
            self._journal = open(jp, 'w')

    def ev(self, name, n=1):
        self.events[name] = self.events.get(name, 0) + n

    def seen(self, *key):
        self.distinct.add(repr(key))

    def sample(self, s, limit=3):
        if len(self.samples) < limit:
            self.samples.append(s)

    def journal(self, text):
        """Record the call before invoking it (survives a crash)."""
        if self._journal is not None:
            self._journal.seek(0)
            self._journal.truncate()
            self._journal.write(text)
            self._journal.flush()

    def violation(self, mechanism, **kw):
        v = dict(mechanism=mechanism)
        v.update(kw)
        if len(self.violations) < 400:
            self.violations.append(v)
        else:
            self.notes['violations_truncated'] = True

    def result(self):
        return dict(evaluations=self.evaluations,
                    distinct=sorted(self.distinct),
                    events=self.events, violations=self.violations,
                    samples=self.samples, notes=self.notes)


def jsonable(o, depth=0):
    if depth > 6:
        return safe_repr(o)
    if isinstance(o, int) and not isinstance(o, bool) and \
            o.bit_length() > 12000:
        return '<int of %d bits>' % o.bit_length()
    if o is None or isinstance(o, (bool, int, str)):
        return o
    if isinstance(o, float):
        if o != o or o in (float('inf'), float('-inf')):
            return safe_repr(o)
        return o
    if isinstance(o, bytes):
        return 'b:' + o.hex()
    if isinstance(o, (list, tuple, set, frozenset)):
        return [jsonable(x, depth + 1) for x in o]
    if isinstance(o, dict):
        return {safe_repr(k) if not isinstance(k, str) else k:
                jsonable(v, depth + 1) for k, v in o.items()}
    if isinstance(o, type):
        return o.__name__
    return safe_repr(o)


def shard_main(pid, specfile, outfile):
    spec = json.load(open(specfile))
    if spec.get('needs_build', True):
        build.assert_build_loaded()
    mod = prop_module(pid)
    rec = Recorder(spec)
    pycov = None
    if os.environ.get('VMON_PYCOV'):
        # tools/cov_report.py: which lines of the pure-Python implementation
        # the workload reached (reporting only, never a verdict)
        import coverage
        import BTrees
        pycov = coverage.Coverage(
            data_file=os.path.join(os.environ['VMON_PYCOV'], 'pycov'),
            data_suffix=True, branch=True,
            include=[os.path.join(os.path.dirname(BTrees.__file__), '*.py')])
        pycov.start()
    try:
        mod.run_shard(spec, rec)
        res = rec.result()
    except BaseException:
        res = rec.result()
        res['harness_error'] = traceback.format_exc()
    if pycov is not None:
        pycov.stop()
        pycov.save()
    with open(outfile + '.tmp', 'w') as fh:
        json.dump(jsonable(res), fh)
    os.replace(outfile + '.tmp', outfile)


# ---------------------------------------------------------------------------
# driver side

def _run_one(pid, spec, idx, workdir, root):
    variant = spec.get('variant', 'mon')
    sdir = os.path.join(workdir, 'shard%04d' % idx)
    os.makedirs(sdir, exist_ok=True)
    specfile = os.path.join(sdir, 'spec.json')
    outfile = os.path.join(sdir, 'out.json')
    json.dump(spec, open(specfile, 'w'))
    env = build.worker_env(variant, root, logdir=sdir)
    env['VMON_JOURNAL'] = os.path.join(sdir, 'journal.txt')
    timeout = spec.get('timeout', 600)
    t0 = time.time()
    out = dict(spec=spec, idx=idx)
    cmd = [PY, '-m', 'vmon', 'shard', pid, specfile, outfile]
    if variant == 'vg':
        # memcheck sees what ASan cannot: reads of uninitialised memory
        cmd = ['valgrind', '--tool=memcheck', '--error-limit=no',
               '--num-callers=30', '--read-var-info=no',
               '--log-file=' + os.path.join(sdir, 'vg.%p.log')] + cmd
    try:
        p = subprocess.run(cmd,
                           env=env, cwd=VERIF, capture_output=True,
                           timeout=timeout)
        out['rc'] = p.returncode
        out['stderr'] = p.stderr.decode('utf8', 'replace')[-6000:]
        out['stdout'] = p.stdout.decode('utf8', 'replace')[-2000:]
    except subprocess.TimeoutExpired:
        out['rc'] = None
        out['timeout'] = True
        out['stderr'] = ''
    out['wall'] = time.time() - t0
    if os.path.exists(outfile):
        out['result'] = json.load(open(outfile))
    # sanitizer logs
    reports = []
    for fn in sorted(os.listdir(sdir)):
        if fn.startswith(('asan.', 'ubsan.')):
            with open(os.path.join(sdir, fn), errors='replace') as fh:
                reports.append(fh.read()[:6000])
    if variant == 'vg':
        nvg = 0
        for fn in sorted(os.listdir(sdir)):
            if fn.startswith('vg.') and fn.endswith('.log'):
                nvg += 1
                with open(os.path.join(sdir, fn), errors='replace') as fh:
                    own, foreign = valgrind_errors(fh.read())
                reports += own[:5]
                out['vg_foreign'] = out.get('vg_foreign', 0) + foreign
        out['vg_logs'] = nvg
    out['sanitizer_reports'] = reports
    jp = os.path.join(sdir, 'journal.txt')
    if os.path.exists(jp):
        out['journal'] = open(jp, errors='replace').read()[-4000:]
    return out


_VG_ERR = ('Invalid read', 'Invalid write', 'Conditional jump or move',
           'Use of uninitialised', 'Invalid free', 'Mismatched free',
           'Source and destination overlap', 'Syscall param',
           'Argument ', 'Jump to the invalid address',
           'Process terminating')
_VG_OURS = ('/BTrees/_', 'Template.c:', 'sorters.c:', 'BTree.c:',
            'macros.h:')


def valgrind_errors(text):
    """-> (error blocks with a frame inside the BTrees extension modules,
    number of other error blocks).  Only the former count: CPython and libc
    are not ours to judge (with PYTHONMALLOC=malloc they are silent here)."""
    own, foreign = [], 0
    block = []

    def flush():
        nonlocal foreign
        if not block:
            return
        head = block[0]
        if any(head.startswith(h) for h in _VG_ERR):
            body = '\n'.join(block)
            if head.startswith('Process terminating'):
                pass
            elif any(m in body for m in _VG_OURS):
                own.append(body[:4000])
            else:
                foreign += 1
    for line in text.splitlines():
        if not line.startswith('=='):
            continue
        rest = line.split('== ', 1)[1] if '== ' in line else ''
        if not rest.strip():
            flush()
            block = []
        else:
            block.append(rest)
    flush()
    return own, foreign


def run_check(pid, tier, seed, root=None, jobs=16, keep=False):
    t0 = time.time()
    mod = prop_module(pid)
    root = root or build.repo_root()
    inconclusive = []
    try:
        specs = mod.plan(tier, seed)
        variants = sorted(set(s.get('variant', 'mon') for s in specs
                              if s.get('needs_build', True)))
        builds = {}
        for v in variants:
            builds[v] = os.path.basename(build.get_build(
                'mon' if v == 'vg' else v, root))
    except Exception as e:
        print('INCONCLUSIVE property=%s reason=build/plan failed: %s' % (
            pid, str(e)[-3000:]))
        _write_evidence(pid, mod, tier, seed, t0, 0, set(), {}, [], [],
                        ['build or plan failed'], {}, 0)
        return 2
    workdir = tempfile.mkdtemp(prefix='vmon-%s-' % pid)
    try:
        with ThreadPoolExecutor(jobs) as ex:
            outs = list(ex.map(
                lambda a: _run_one(pid, a[1], a[0], workdir, root),
                enumerate(specs)))
    finally:
        if not keep:
            shutil.rmtree(workdir, ignore_errors=True)
    evaluations = 0
    distinct = set()
    events = {}
    samples = []
    violations = []
    notes = {}
    nreports = 0
    for o in outs:
        res = o.get('result')
        label = o['spec'].get('label', 'shard%d' % o['idx'])
        if res:
            evaluations += res['evaluations']
            distinct.update(res['distinct'])
            for k, n in res['events'].items():
                events[k] = events.get(k, 0) + n
            for s in res['samples']:
                if len(samples) < 6:
                    samples.append(s)
            for v in res['violations']:
                v['shard'] = o['spec']
                violations.append(v)
            for k, n in res.get('notes', {}).items():
                notes[k] = n
            if res.get('harness_error'):
                inconclusive.append('harness error in %s: %s' % (
                    label, res['harness_error'][-1500:]))
        nreports += len(o['sanitizer_reports'])
        if o['spec'].get('variant') == 'vg':
            events['valgrind:shards'] = events.get('valgrind:shards', 0) + 1
            if res:
                events['valgrind:evaluations'] = events.get(
                    'valgrind:evaluations', 0) + res['evaluations']
            notes['valgrind_errors_outside_BTrees'] = notes.get(
                'valgrind_errors_outside_BTrees', 0) + o.get('vg_foreign', 0)
            if not o.get('vg_logs') and not o.get('timeout'):
                inconclusive.append('no valgrind log for %s' % label)
        if o.get('timeout'):
            inconclusive.append('watchdog fired for %s after %.0fs' % (
                label, o['wall']))
        elif o['rc'] != 0 or o['sanitizer_reports']:
            if o['rc'] is not None and (o['rc'] < 0 or o['sanitizer_reports']
                                        or res is None):
                # the process died: signal, abort() from a C assert, sanitizer
                extra = {}
                if o['spec'].get('sacrificial'):
                    # a shard that runs ONE case of a recorded finding in a
                    # process of its own: its death is that finding (the
                    # match block of the entry still has to agree)
                    extra = dict(finding=o['spec']['sacrificial'],
                                 reentry_action=o['spec'].get(
                                     'reentry_action'),
                                 reentry_trigger=o['spec'].get(
                                     'reentry_trigger'))
                violations.append(dict(
                    mechanism='crash' if o['rc'] else 'sanitizer-report',
                    rc=o['rc'], **extra,
                    stderr=o['stderr'][-3000:],
                    reports=o['sanitizer_reports'][:2],
                    journal=o.get('journal', ''), shard=o['spec']))
            elif res is None:
                inconclusive.append('worker %s failed rc=%s: %s' % (
                    label, o['rc'], o['stderr'][-1500:]))
    # must-see
    for name, need in mod.must_see(tier).items():
        if events.get(name, 0) < need:
            inconclusive.append('must-see event %s observed %d < %d' % (
                name, events.get(name, 0), need))
    # classify
    known_hit = {}
    unknown = []
    for v in violations:
        fid = findings.classify(pid, v)
        if fid:
            known_hit.setdefault(fid, []).append(v)
        else:
            unknown.append(v)
    rc = 0
    os.makedirs(os.path.join(OUT, 'replays'), exist_ok=True)
    for fn in os.listdir(os.path.join(OUT, 'replays')):
        if fn.startswith(pid + '-'):
            os.unlink(os.path.join(OUT, 'replays', fn))
    for fid, vs in sorted(known_hit.items()):
        print('KNOWN-FINDING: property=%s %s: %s (%d occurrences)' % (
            pid, fid, findings.describe(fid), len(vs)))
    seen_mech = {}
    for i, v in enumerate(unknown):
        key = (v.get('mechanism'), v.get('impl'), v.get('op'))
        seen_mech[key] = seen_mech.get(key, 0) + 1
        if seen_mech[key] > 3:
            continue
        path = os.path.join(OUT, 'replays', '%s-%d-%d.json' % (pid, seed, i))
        with open(path, 'w') as fh:
            json.dump(dict(property=pid, tier=tier, seed=seed, violation=v),
                      fh, indent=1, default=repr)
        print('VIOLATION property=%s replay=%s' % (pid, path))
        print('  ' + json.dumps(
            {k: v[k] for k in v if k not in ('shard', 'case')},
            default=repr)[:1500])
        rc = 1
    if unknown and rc == 0:
        rc = 1
    for r in inconclusive:
        print('INCONCLUSIVE property=%s reason=%s' % (pid, r))
    if rc == 0 and inconclusive:
        rc = 2
    notes = dict(notes or {})
    notes['known_finding_examples'] = {
        fid: dict(occurrences=len(vs), mechanisms=sorted(set(
            '%s/%s/%s' % (v.get('mechanism'), v.get('impl'), v.get('op'))
            for v in vs))[:12],
            example=json.dumps({k: vs[0][k] for k in vs[0]
                                if k not in ('shard', 'case', 'history')},
                               default=repr)[:700])
        for fid, vs in sorted(known_hit.items())}
    _write_evidence(pid, mod, tier, seed, t0, evaluations, distinct, events,
                    samples, sorted(known_hit), inconclusive, builds,
                    len(unknown), nreports, notes, len(specs))
    print('%s %s seed=%d: %d evaluations, %d distinct, %d shards, '
          '%d violations (%d known), %.1fs -> %s' % (
              pid, tier, seed, evaluations, len(distinct), len(specs),
              len(violations), len(violations) - len(unknown),
              time.time() - t0,
              {0: 'HELD', 1: 'VIOLATED', 2: 'INCONCLUSIVE'}[rc]))
    return rc


def _write_evidence(pid, mod, tier, seed, t0, evaluations, distinct, events,
                    samples, known_hit, inconclusive, builds, nviol,
                    nreports=0, notes=None, nshards=0):
    ev = dict(
        property_id=pid, tier=tier, seed=seed,
        level=getattr(mod, 'LEVEL', 'exploration'),
        coverage=dict(
            evaluations=evaluations,
            distinct_nontrivial=len(distinct),
            rule=getattr(mod, 'RULE', ''),
            samples=samples or ['(no samples: run failed)'],
            events=events,
            must_see=mod.must_see(tier) if hasattr(mod, 'must_see') else {},
            known_findings_hit=known_hit,
            inconclusive_reasons=inconclusive,
            sanitizer_reports=nreports,
            builds=builds, shards=nshards,
            notes=notes or {},
            distinct_examples=sorted(distinct)[:12],
        ),
        assumptions=getattr(mod, 'ASSUMPTIONS', []),
        wall_s=round(time.time() - t0, 2),
        violations=nviol,
    )
    os.makedirs(os.path.join(OUT, 'evidence'), exist_ok=True)
    path = os.path.join(OUT, 'evidence', '%s.json' % pid)
    with open(path + '.tmp', 'w') as fh:
        json.dump(ev, fh, indent=1, default=repr)
    os.replace(path + '.tmp', path)


def replay(path):
    d = json.load(open(path))
    pid = d['property']
    v = d['violation']
    spec = v['shard']
    root = build.repo_root()
    workdir = tempfile.mkdtemp(prefix='vmon-replay-')
    try:
        o = _run_one(pid, spec, 0, workdir, root)
    finally:
        shutil.rmtree(workdir, ignore_errors=True)
    res = o.get('result') or {}
    vs = res.get('violations', [])
    print('replayed shard %s: rc=%s, %d violations, %d sanitizer reports' % (
        spec.get('label'), o['rc'], len(vs), len(o['sanitizer_reports'])))
    same = [x for x in vs if x.get('mechanism') == v.get('mechanism')]
    for x in (same or vs)[:5]:
        print(json.dumps(x, default=repr)[:3000])
    for r in o['sanitizer_reports'][:2]:
        print(r[:3000])
    if o['rc'] not in (0,) and not vs:
        print(o['stderr'][-3000:])
    return 1 if (vs or o['sanitizer_reports'] or o['rc'] != 0) else 0
